#!/bin/sh
# usage: tools/run_seed_wt.sh <seeded/ID-dir> <PROPERTY> [tier]
# Like run_seed.sh but leaves /repo alone: applies the seeded change in a scratch worktree under /tmp and points the
# runner at it (VCHECK_REPO_SRC); evidence of such runs goes to a scratch directory. Used while other checks run on /repo.
D=$(cd "$1" && pwd); P=$2; T=${3:-quick}
WT=/tmp/seedrun_wt_$$
git -C /repo worktree add -q --detach $WT HEAD || exit 2
git -C $WT apply $D/patch.diff || { echo "patch does not apply"; git -C /repo worktree remove --force $WT; exit 2; }
cd /verif && VCHECK_REPO_SRC=$WT/src VCHECK_EVIDENCE_DIR=$WT/evidence ./check $P $T > $WT/run.log 2>&1; RC=$?
echo "seed=$(basename $D) property=$P tier=$T exit=$RC"
grep -E "^VIOLATION|^INCONCLUSIVE" $WT/run.log | cut -c1-300 | head -5
grep -E "VIOLATION  |INCONCLUSIVE  " $WT/run.log | cut -c1-260 | head -4
git -C /repo worktree remove --force $WT
