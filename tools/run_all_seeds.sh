#!/bin/sh
# Verify every seeded change (demo passes clean / fails patched, suite unchanged) and run the quick check of
# its property against it.  Writes seeded/RESULTS.txt.  Modifies /repo temporarily (apply / checkout).
cd /verif || exit 2
OUT=seeded/RESULTS.txt
: > $OUT
for d in ${SEEDS:-seeded/*/}; do
  n=$(basename $d)
  p=$(echo $n | cut -d- -f1)
  echo "== $n" >> $OUT
  tools/verify_seed.sh $d 2>&1 | head -1 >> $OUT
  tools/run_seed.sh $d $p quick 2>&1 | head -3 >> $OUT
done
rm -rf /verif/replay
cat $OUT
