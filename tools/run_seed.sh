#!/bin/sh
# usage: tools/run_seed.sh <seeded/ID-dir> <PROPERTY> [tier]  -- apply the seeded change to /repo, run the check, undo.
D=$(cd "$1" && pwd); P=$2; T=${3:-quick}
git -C /repo diff --quiet || { echo "/repo has local modifications; refusing"; exit 2; }
git -C /repo apply $D/patch.diff || { echo "patch does not apply"; exit 2; }
cd /verif && ./check $P $T > /tmp/seedrun_$$.log 2>&1; RC=$?
git -C /repo checkout -- . 
echo "seed=$(basename $D) property=$P tier=$T exit=$RC"
grep -E "^VIOLATION|^INCONCLUSIVE" /tmp/seedrun_$$.log | cut -c1-300 | head -5
grep -E "VIOLATION  |INCONCLUSIVE  " /tmp/seedrun_$$.log | cut -c1-260 | head -4
rm -f /tmp/seedrun_$$.log
