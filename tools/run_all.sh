#!/bin/sh
# usage: tools/run_all.sh [quick|thorough] [ids...]  - run the registered checks one after the other on the current /repo tree
cd /verif || exit 2
T=${1:-quick}; shift
IDS=${*:-C01 C02 C03 C04 C05 C06 C07 C08 C09 C10 C11 C12 C14 C15 C16 C17 C18 C19 C20}
for id in $IDS; do
  s=$(date +%s)
  ./check $id $T > /tmp/runall_$id.log 2>&1; rc=$?
  e=$(date +%s)
  echo "$id $T exit=$rc wall=$((e-s))s $(grep -E '^(OK|INCONCLUSIVE|VIOLATION)' /tmp/runall_$id.log | head -2 | cut -c1-200 | tr '\n' ' ')"
done
