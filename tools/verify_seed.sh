#!/bin/sh
# usage: tools/verify_seed.sh <dir with patch.diff demo.py>  -- verifies a seeded change in a scratch worktree of /repo HEAD
# prints: demo_clean=<rc> demo_patched=<rc> tests="<summary>"
D=$(cd "$1" && pwd)
WT=/tmp/seedwt_$$
git -C /repo worktree add -q --detach $WT HEAD || exit 2
cd $WT
PYTHONPATH=$WT/src /venv/bin/python $D/demo.py >/dev/null 2>&1; RC0=$?
if ! git apply $D/patch.diff; then echo "patch does not apply"; cd /; git -C /repo worktree remove --force $WT; exit 2; fi
PYTHONPATH=$WT/src /venv/bin/python $D/demo.py > $WT/demo.out 2>&1; RC1=$?
T=$(PYTHONPATH=$WT/src /venv/bin/python -m pytest -q -p no:cacheprovider --timeout=900 2>&1 | tail -1)
echo "demo_clean=$RC0 demo_patched=$RC1 tests=\"$T\""
tail -3 $WT/demo.out
cd /
git -C /repo worktree remove --force $WT
