#!/usr/bin/env python3
"""Regenerate MANIFEST.json from vcheck/props/*.py (single source of truth) and validate it."""
import importlib
import json
import os
import sys

ROOT = os.path.dirname(os.path.dirname(os.path.abspath(__file__)))
sys.path.insert(0, ROOT)

ALL = ["C%02d" % i for i in range(1, 21)]
NOT_APPLICABLE = {
    "C13": ("Timezone.from_tzinfo is a coarse-to-fine numeric search calling utcoffset() of an opaque C/third-party tz "
            "object hundreds of times per transition; symbolic execution has one path per answer (every path timed out in "
            "the design probes) and the quantifier is tz-database data behind C code: no sound bounded solver claim "
            "with a useful bound is reachable (DESIGN.md section 3, C13)."),
}
PENDING_REASON = "solver-based check not built yet (work in progress; see DESIGN.md section 3 for the planned harness)"


def main():
    checks = []
    na = []
    for pid in ALL:
        path = os.path.join(ROOT, "vcheck", "props", pid.lower() + ".py")
        if pid in NOT_APPLICABLE:
            na.append({"property_id": pid, "reason": NOT_APPLICABLE[pid]})
            continue
        if not os.path.exists(path):
            na.append({"property_id": pid, "reason": PENDING_REASON})
            continue
        spec = importlib.import_module("vcheck.props." + pid.lower())
        checks.append({
            "property_id": pid,
            "quick_cmd": "./check %s quick" % pid,
            "thorough_cmd": "./check %s thorough" % pid,
            "evidence_file": "evidence/%s.json" % pid,
            "replay_cmd_template": "./check --replay {path}",
            "engine": getattr(spec, "ENGINE", "crosshair-z3"),
            "level_claimed": {
                "category": "model_checking",
                "text": getattr(spec, "LEVEL_TEXT", spec.EXPLANATION),
                "design_ref": "DESIGN.md section 3, " + pid,
            },
            "level_note": getattr(spec, "LEVEL_NOTE", "; ".join(spec.ASSUMPTIONS)),
            "technique": getattr(spec, "TECHNIQUE", "bounded symbolic execution of the real Python code with CrossHair 0.0.110 / z3 (path-exhaustive 'Confirmed over all paths' within stated bounds; counterexamples replayed concretely)"),
        })
    man = {
        "version": 1,
        "setup_cmd": "./setup.sh",
        "hooks": {
            "guard": "ICALENDAR_VERIF",
            "enable": "no source hooks are needed: lifting, stubbing and AST translation happen inside the check processes (PYTHONPATH=/repo/src); the guard name is reserved only",
            "baseline_off_cmd": "cd /repo && /venv/bin/python -m pytest -ra -q -p no:cacheprovider --timeout=900 --continue-on-collection-errors",
            "source_commits": [],
            "add_only": True,
        },
        "engines": [
            {"name": "crosshair-z3", "path": "vcheck/xh_worker.py", "serves_properties": [c["property_id"] for c in checks if "crosshair" in c["engine"]],
             "kind_free_text": "CrossHair 0.0.110 symbolic execution of /repo/src/icalendar with z3 5.1.0, one process per condition, path-tree exhaustion = verdict"},
            {"name": "pyz3", "path": "vcheck/pyz3.py", "serves_properties": [c["property_id"] for c in checks if "pyz3" in c["engine"]],
             "kind_free_text": "own bounded translator from the Python AST of selected /repo functions to z3 terms (state merging), regenerated from source every run; unsat = holds within the bound, sat = counterexample replayed on the real code"},
        ],
        "checks": checks,
        "notes": "Exit codes of every check: 0 = all registered solver conditions confirmed; 1 = replayed violation (VIOLATION line); 2 = inconclusive (solver timeout/unknown, non-reproducing counterexample, vacuous harness) - never reported as success. Known findings / fixed defects: known_findings.json.",
        "not_applicable": na,
    }
    with open(os.path.join(ROOT, "MANIFEST.json"), "w") as f:
        json.dump(man, f, indent=1)
    try:
        import jsonschema
        jsonschema.validate(man, json.load(open("/root/.vp/MANIFEST.schema.json")))
        print("MANIFEST.json valid; checks:", [c["property_id"] for c in checks])
    except ImportError:
        print("jsonschema not available; MANIFEST.json written")


if __name__ == "__main__":
    main()
