"""C13 (bounded) - a generated VTIMEZONE reproduces the source zone's offsets over its window.

Real code executed: Timezone.from_tzinfo (the coarse-to-fine search, grouping, RDATE collection),
TimezoneStandard/Daylight typed properties, Timezone.get_transitions / to_tz through the pytz provider.
The SOURCE ZONE IS A STUB: a pure-Python tzinfo with 0-3 transitions chosen by symbolic selectors from a
grid of UTC instants inside a one-year window, with whole-hour offsets.  Real IANA zones (C objects /
third-party tables) are outside this condition.
"""
from datetime import date, datetime, timedelta, tzinfo

import pytz

from icalendar import Timezone
from icalendar.timezone.pytz import PYTZ
from vcheck.hcommon import pin, pinned

FIRST = date(1970, 1, 1)
LAST = date(1971, 1, 1)
T0 = datetime(1970, 1, 1)
# grid of transition instants (UTC): (day of 1970, hour); 83/84 and 170/171 are one day apart
GRID = [(20, 1), (50, 0), (83, 1), (84, 1), (110, 23), (170, 3), (171, 3), (233, 1), (300, 1), (364, 22)]
# offset programmes: the offset (hours) and name after the k-th transition (index 0 = before any)
PROGRAMS = [
    [(1, "STD", False), (2, "DST", True), (1, "STD", False), (2, "DST", True)],          # alternate
    [(-5, "EST", False), (-4, "EDT", True), (-5, "EST", False), (-4, "EDT", True)],      # negative
    [(0, "GMT", False), (1, "A", False), (2, "B", False), (3, "C", False)],              # monotone, all standard
    [(5, "S", False), (7, "DD", True), (6, "D", True), (5, "S", False)],                 # double summer time
    [(3, "X", False), (2, "Y", False), (3, "Z", False), (2, "Y", False)],                # backwards, new names
]


class StubTz(tzinfo):
    def __init__(self, program, instants):
        self.program = program
        self.instants = instants       # increasing UTC naive datetimes

    def _period(self, dt):
        wall = dt.replace(tzinfo=None)
        cur = self.program[0]
        for k, when in enumerate(self.instants):
            if wall >= when + timedelta(hours=cur[0]):
                cur = self.program[k + 1]
            else:
                break
        return cur

    def utcoffset(self, dt):
        return timedelta(hours=self._period(dt)[0])

    def tzname(self, dt):
        return self._period(dt)[1]

    def dst(self, dt):
        return timedelta(hours=1) if self._period(dt)[2] else timedelta(0)

    def at_utc(self, u):
        cur = self.program[0]
        for k, when in enumerate(self.instants):
            if u >= when:
                cur = self.program[k + 1]
        return cur


def _c(x, lo, hi):
    for c in range(lo, hi + 1):
        if x == c:
            return c
    return hi


def kf_short_excursion(program, instants):
    """Known finding C13-K1: the 64-day coarse step of from_tzinfo jumps over an excursion A -> B -> A
    whose two transitions are less than 64 days apart (the offsets at both ends of the step are
    equal), so both transitions are lost."""
    for i in range(len(instants) - 1):
        if instants[i + 1] - instants[i] < timedelta(days=64) and program[i + 2][0] == program[i][0]:
            return True
    return False


def _rfc_lookup(vt, u):
    """offset / name at UTC instant u by RFC 5545 onset rules, computed from the component itself"""
    best = None
    for sub in vt.subcomponents:
        frm = sub["TZOFFSETFROM"].td
        to = sub["TZOFFSETTO"].td
        name = str(sub["TZNAME"])
        starts = [sub["DTSTART"].dt]
        if "RDATE" in sub:
            rd = sub["RDATE"]
            for lst in (rd if isinstance(rd, list) else [rd]):
                starts += [x.dt for x in lst.dts]
        for s in starts:
            onset = s - frm
            if onset <= u and (best is None or onset >= best[0]):
                best = (onset, to, name)
    return best


def h_generate(prog: int, n: int, i1: int, i2: int, i3: int) -> bool:
    """
    pre: 0 <= prog < len(PROGRAMS) and pinned("prog", prog)
    pre: 0 <= n <= 3 and pinned("n", n)
    pre: 0 <= i1 < len(GRID) and (n < 2 or i1 < i2 < len(GRID)) and (n < 3 or i2 < i3 < len(GRID))
    post: _
    """
    prog = pin("prog", prog); n = pin("n", n)
    program = PROGRAMS[prog]
    idx = []
    if n >= 1:
        idx.append(_c(i1, 0, len(GRID) - 1))
    if n >= 2:
        idx.append(_c(i2, 0, len(GRID) - 1))
    if n >= 3:
        idx.append(_c(i3, 0, len(GRID) - 1))
    instants = [T0 + timedelta(days=GRID[i][0], hours=GRID[i][1]) for i in idx]
    if kf_short_excursion(program, instants):
        return True
    src = StubTz(program, instants)
    vt = Timezone.from_tzinfo(src, "Stub/Zone", FIRST, LAST)
    # (1) well-formed
    if str(vt.get("TZID")) != "Stub/Zone" or not vt.subcomponents:
        return False
    lo, hi = datetime(1970, 1, 1), datetime(1971, 1, 1)
    for sub in vt.subcomponents:
        for key in ("DTSTART", "TZOFFSETFROM", "TZOFFSETTO", "TZNAME"):
            if key not in sub:
                return False
        starts = [sub["DTSTART"].dt]
        if "RDATE" in sub:
            rd = sub["RDATE"]
            for lst in (rd if isinstance(rd, list) else [rd]):
                starts += [x.dt for x in lst.dts]
        for s in starts:
            local_lo = lo + sub["TZOFFSETFROM"].td - timedelta(hours=14)
            if not (local_lo <= s <= hi + timedelta(hours=14)):
                return False
    # probes: window start, every transition -1 s / 0 / +1 s, interval midpoints, end of the window
    probes = [lo + timedelta(hours=15), hi - timedelta(hours=15)]
    for k, w in enumerate(instants):
        probes += [w - timedelta(seconds=1), w, w + timedelta(seconds=1)]
        nxt = instants[k + 1] if k + 1 < len(instants) else hi - timedelta(hours=15)
        probes.append(w + (nxt - w) / 2)
    back = PYTZ().create_timezone(vt)
    for u in probes:
        if not (lo + timedelta(hours=15) <= u <= hi - timedelta(hours=15)):
            continue
        off, name, isdst = src.at_utc(u)
        # (2) RFC onset rules on the component
        r = _rfc_lookup(vt, u)
        if r is None or r[1] != timedelta(hours=off) or r[2] != name:
            return False
        # (3) converted back to a time zone object (pytz provider)
        loc = pytz.utc.localize(u).astimezone(back)
        if loc.utcoffset() != timedelta(hours=off) or loc.tzname() != name:
            return False
    # (4) generating again from the converted zone yields the same component
    again = Timezone.from_tzinfo(back, "Stub/Zone", FIRST, LAST)
    return again.to_ical() == vt.to_ical()
