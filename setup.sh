#!/bin/sh
# Build /verif/.venv: an overlay venv on /venv (repo deps) + crosshair-tool + z3 from the offline wheelhouse.
# Idempotent; every check calls it (a fresh restore has no .venv).
set -e
V=/verif/.venv
if [ -x "$V/bin/python" ] && "$V/bin/python" -c "import crosshair, z3, dateutil, pytz" 2>/dev/null; then
  exit 0
fi
LOCK=/verif/.venv.lock
exec 9>"$LOCK"
flock 9
if [ -x "$V/bin/python" ] && "$V/bin/python" -c "import crosshair, z3, dateutil, pytz" 2>/dev/null; then
  exit 0
fi
rm -rf "$V"
/venv/bin/python -m venv "$V"
SP=$("$V/bin/python" -c "import sysconfig;print(sysconfig.get_paths()['purelib'])")
# repo dependencies (dateutil, pytz, tzdata) come from /venv; the icalendar package itself is
# always taken from /repo/src through PYTHONPATH (set by the runner), never from the editable install.
printf '%s\n' "import site; site.addsitedir('/venv/lib/python3.12/site-packages')" > "$SP/zz_venv_overlay.pth"
PIP_NO_INDEX=1 "$V/bin/pip" install --quiet --no-index --find-links /opt/veriftools/wheels crosshair-tool z3-solver cvc5 >/dev/null
"$V/bin/python" -c "import crosshair, z3, dateutil, pytz; print('verif venv ready')"
