#!/bin/sh
# Run the repository's pinned suite (guard off) and print the summary line. Expected: 8055 passed, 3 failed (always-failing in BASELINE.json).
cd /repo && /venv/bin/python -m pytest -q -p no:cacheprovider --timeout=900 --continue-on-collection-errors "$@" 2>&1 | tail -6
