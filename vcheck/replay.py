"""Concrete (plain interpreter, no CrossHair) execution of harness functions on the real code.

  --call <harness.py> "<fn(args)>"          replay one counterexample
  --samples <harness.py> <fn> <n> <seed>     engine-fidelity guard: run the harness on concrete inputs
  --witness '<json>'                         re-run the concrete witness of a known finding
"""
import importlib.util
import inspect
import json
import os
import random
import re
import sys
import traceback
import typing


def load(path):
    spec = importlib.util.spec_from_file_location(
        "vharness_" + os.path.splitext(os.path.basename(path))[0], path)
    mod = importlib.util.module_from_spec(spec)
    sys.modules[spec.name] = mod
    spec.loader.exec_module(mod)
    return mod


def emit(d):
    sys.stdout.write("\nVCHECK_JSON " + json.dumps(d, default=repr) + "\n")


def doc_lines(fn, key):
    out = []
    for ln in (fn.__doc__ or "").splitlines():
        ln = ln.strip()
        if ln.startswith(key + ":"):
            out.append(ln[len(key) + 1:].strip())
    return out


def declared_raises(fn):
    names = []
    for ln in doc_lines(fn, "raises"):
        names += [x.strip() for x in ln.split(",") if x.strip()]
    return names


def run_call(mod, call):
    m = re.match(r"\s*([A-Za-z_][A-Za-z_0-9]*)\s*\(", call)
    fn = getattr(mod, m.group(1)) if m else None
    ns = dict(vars(mod))
    import datetime as _dt
    ns.setdefault("datetime", _dt)
    try:
        r = eval(call, ns)
    except Exception as e:
        if fn is not None and type(e).__name__ in declared_raises(fn):
            return {"outcome": "not_reproduced", "detail": "declared exception " + repr(e)}
        return {"outcome": "reproduced", "detail": "exception " + repr(e),
                "traceback": traceback.format_exc()[-1500:]}
    if r:
        return {"outcome": "not_reproduced", "detail": "harness returned %r" % (r,)}
    return {"outcome": "reproduced", "detail": "harness returned %r" % (r,)}


ALPHABET = ["\\", "n", "N", ";", ",", ":", '"', "%", "2", "C", "\r", "\n", " ", "a", "3", "A", "B",
            "5", "=", "'", "^", "\t", "Z", "é", "€", "😀", "0", "-", "+", "P", "T", "/", "’", "x"]


def int_literals(pres):
    vals = set()
    for p in pres:
        for m in re.finditer(r"(?<![\w.])-?\d+", p):
            v = int(m.group(0))
            for d in (-1, 0, 1):
                vals.add(v + d)
                vals.add(-v + d)
    return sorted(vals)


def var_ranges(pres, ns):
    """Per-variable integer ranges from preconditions of the shape `lo <= x < hi` / `lo <= x <= hi`."""
    out = {}
    pat = re.compile(r"(-?\d+|[A-Z_][A-Z_0-9]*)\s*<=\s*([a-z_][a-z_0-9]*)\s*(<=|<)\s*(-?\d+|[A-Z_][A-Z_0-9]*)")
    for p in pres:
        for m in pat.finditer(p):
            try:
                lo = int(eval(m.group(1), ns))
                hi = int(eval(m.group(4), ns))
            except Exception:
                continue
            if m.group(3) == "<":
                hi -= 1
            if lo <= hi:
                out[m.group(2)] = (lo, hi)
    return out


def gen_value(tp, rnd, ints):
    origin = typing.get_origin(tp)
    if origin is typing.Union:
        args = [a for a in typing.get_args(tp)]
        if type(None) in args and rnd.random() < 0.3:
            return None
        args = [a for a in args if a is not type(None)]
        return gen_value(rnd.choice(args), rnd, ints)
    if origin in (list, typing.List):
        (a,) = typing.get_args(tp) or (int,)
        return [gen_value(a, rnd, ints) for _ in range(rnd.randint(0, 4))]
    if origin in (tuple, typing.Tuple):
        return tuple(gen_value(a, rnd, ints) for a in typing.get_args(tp))
    if tp is bool:
        return rnd.random() < 0.5
    if tp is int:
        r = rnd.random()
        if ints and r < 0.5:
            return rnd.choice(ints)
        if r < 0.8:
            return rnd.randint(-5, 70)
        lo, hi = (min(ints), max(ints)) if ints else (-1000, 1000)
        return rnd.randint(lo, hi)
    if tp is str:
        n = rnd.choice([0, 1, 1, 2, 2, 3, 3, 4, 5, 6])
        return "".join(rnd.choice(ALPHABET) for _ in range(n))
    if tp is bytes:
        return bytes(rnd.randint(0, 255) for _ in range(rnd.randint(0, 4)))
    raise TypeError("no generator for %r" % (tp,))


def run_samples(mod, fn_name, n, seed):
    fn = getattr(mod, fn_name)
    rnd = random.Random(seed * 7919 + 17)
    hints = typing.get_type_hints(fn)
    params = list(inspect.signature(fn).parameters)
    pres = doc_lines(fn, "pre")
    ints = int_literals(pres)
    raises = declared_raises(fn)
    ns = dict(vars(mod))
    cands = []
    extra = getattr(mod, "SAMPLES", {}).get(fn_name, [])
    for a in extra:
        cands.append(tuple(a))
    tries = 0
    ran = 0
    examples = []
    pinned_params = json.loads(os.environ.get("VCHECK_PARAMS") or "{}")
    ranges = var_ranges(pres, ns)
    while ran < n and tries < n * 400:
        tries += 1
        if cands:
            args = cands.pop()
        else:
            try:
                args = []
                for p in params:
                    if p in pinned_params:
                        args.append(pinned_params[p])
                        continue
                    tp = hints[p]
                    is_opt = typing.get_origin(tp) is typing.Union and type(None) in typing.get_args(tp)
                    base = [a for a in typing.get_args(tp) if a is not type(None)][0] if is_opt else tp
                    if base is int and p in ranges and rnd.random() < 0.85:
                        if is_opt and rnd.random() < 0.3:
                            args.append(None)
                            continue
                        lo, hi = ranges[p]
                        r = rnd.random()
                        if r < 0.2:
                            args.append(rnd.choice([lo, hi, min(lo + 1, hi), max(hi - 1, lo)]))
                        elif r < 0.5:
                            args.append(rnd.randint(lo, min(hi, lo + 5)))
                        else:
                            args.append(rnd.randint(lo, hi))
                        continue
                    args.append(gen_value(tp, rnd, ints))
                args = tuple(args)
            except TypeError as e:
                return {"outcome": "error", "detail": repr(e)}
        env = dict(ns)
        env.update(dict(zip(params, args)))
        try:
            if not all(eval(p, env) for p in pres):
                continue
        except Exception:
            continue
        ran += 1
        call = "%s(%s)" % (fn_name, ", ".join(repr(a) for a in args))
        try:
            r = fn(*args)
        except Exception as e:
            if type(e).__name__ in raises:
                continue
            return {"outcome": "fail", "call": call, "detail": "exception " + repr(e), "ran": ran}
        if not r:
            return {"outcome": "fail", "call": call, "detail": "returned %r" % (r,), "ran": ran}
        if len(examples) < 5:
            examples.append(call)
    if ran == 0:
        return {"outcome": "error", "detail": "could not generate any input meeting the preconditions"}
    return {"outcome": "ok", "ran": ran, "examples": examples}


def run_witness(w):
    ns = {}
    try:
        exec(w["code"], ns)
    except Exception as e:
        if w.get("exception_is_reproduction"):
            return {"outcome": "reproduced", "detail": repr(e)}
        return {"outcome": "error", "detail": repr(e), "traceback": traceback.format_exc()[-1500:]}
    return {"outcome": "reproduced" if ns.get("reproduced") else "not_reproduced"}


def main(argv):
    mode = argv[0]
    try:
        if mode == "--call":
            emit(run_call(load(argv[1]), argv[2]))
        elif mode == "--samples":
            emit(run_samples(load(argv[1]), argv[2], int(argv[3]), int(argv[4])))
        elif mode == "--witness":
            emit(run_witness(json.loads(argv[1])))
    except Exception as e:
        emit({"outcome": "error", "detail": repr(e), "traceback": traceback.format_exc()[-2000:]})


if __name__ == "__main__":
    main(sys.argv[1:])
