"""C09 - the parse result is invariant under line endings, BOM, str/bytes, folds and name case.

Real code executed: parser_tools.to_unicode, Contentlines.from_ical (unfold regex, NEWLINE split,
BOM), Component.from_ical (name comparisons for BEGIN/END, component lookup, FREEBUSY, TZID routing,
VTIMEZONE caching), CaselessDict lookups, value decoders of the seed texts.
The rewrites are symbolic parameters applied to concrete well-formed seed calendars.
"""
import re

from icalendar.cal import Component
from vcheck.hcommon import pin, pinned, tier

SEEDS = [
    # 0: typed values, zoned start, multi-octet text, unknown component and property
    """BEGIN:VCALENDAR
VERSION:2.0
PRODID:-//x//y
BEGIN:VEVENT
UID:ev-1
DTSTART;TZID=Europe/Vienna:20200329T023000
DTEND;TZID=Europe/Vienna:20200329T040000
SUMMARY;LANGUAGE=de:Grüße € 😀\\, done\; ok
RRULE:FREQ=DAILY;COUNT=3
EXDATE;TZID=Europe/Vienna:20200330T023000,20200331T023000
CATEGORIES:a,b
LOCATION:Room 4 
COMMENT:Team  sync\t
BEGIN:VALARM
ACTION:DISPLAY
TRIGGER;RELATED=END:-PT5M
END:VALARM
END:VEVENT
BEGIN:X-ROOM-INFO
X-SEATS;X-KIND=big:12
END:X-ROOM-INFO
END:VCALENDAR
""",
    # 1: VFREEBUSY with period lists, VTODO
    """BEGIN:VCALENDAR
VERSION:2.0
PRODID:p
BEGIN:VFREEBUSY
UID:fb-1
DTSTAMP:20200101T000000Z
FREEBUSY;FBTYPE=BUSY:19980415T133000Z/19980415T170000Z,19980416T133000Z/PT1H
FREEBUSY:19980417T133000Z/PT2H
END:VFREEBUSY
BEGIN:VTODO
UID:td-1
DUE;VALUE=DATE:20200102
ATTENDEE;CN="Doe, John";ROLE=CHAIR:mailto:j@example.com
END:VTODO
END:VCALENDAR
""",
    # 2: custom VTIMEZONE used by an event in the same calendar
    """BEGIN:VCALENDAR
VERSION:2.0
PRODID:p
BEGIN:VTIMEZONE
TZID:Custom/C09-Zone
BEGIN:STANDARD
DTSTART:19701025T030000
TZOFFSETFROM:+0200
TZOFFSETTO:+0100
TZNAME:CST
END:STANDARD
BEGIN:DAYLIGHT
DTSTART:19700329T020000
TZOFFSETFROM:+0100
TZOFFSETTO:+0200
TZNAME:CDT
END:DAYLIGHT
END:VTIMEZONE
BEGIN:VEVENT
UID:ev-2
DTSTART;TZID=Custom/C09-Zone:20200101T120000
RECURRENCE-ID;TZID=Custom/C09-Zone:20200101T120000
END:VEVENT
END:VCALENDAR
""",
]


def _c(x, lo, hi):
    for c in range(lo, hi + 1):
        if x == c:
            return c
    return hi


def tree(c):
    props = []
    for k in sorted(c.keys()):
        vals = c[k] if isinstance(c[k], list) else [c[k]]
        for v in vals:
            params = getattr(v, "params", None)
            enc = v.to_ical() if hasattr(v, "to_ical") else v
            dt = getattr(v, "dt", None)
            off = dt.utcoffset() if hasattr(dt, "utcoffset") else None
            props.append((k, type(v).__name__, sorted(params.items()) if params else [], enc, off, v if isinstance(v, str) else None))
    return (c.name, props, [tree(s) for s in c.subcomponents], list(c.errors))


def _lines(seed):
    return [ln for ln in SEEDS[seed].split("\n") if ln.strip()]


def _recase(line, mode, what):
    """change the letter case of the name part of a content line.
    what: 0 nothing, 1 BEGIN/END keyword and component name, 2 property name, 3 parameter names"""
    if mode == 0:
        return line
    f = (lambda s: s.lower()) if mode == 1 else (lambda s: "".join(ch.lower() if i % 2 else ch.upper() for i, ch in enumerate(s)))
    head, sep, value = line.partition(":")
    is_block = head.upper() in ("BEGIN", "END")
    if is_block:
        if what == 1:
            return f(head) + ":" + f(value)
        return line
    if what == 2:
        name, semi, params = head.partition(";")
        return f(name) + semi + params + sep + value
    if what == 3 and ";" in head and '"' not in head:
        name, semi, params = head.partition(";")
        out = []
        for p in params.split(";"):
            k, eq, v = p.partition("=")
            out.append(f(k) + eq + v)
        return name + ";" + ";".join(out) + sep + value
    return line


def _render(seed, lf_mask, bom, as_str, fold_line, fold_pos, fold_ws, blanks, mode, what):
    lines = _lines(seed)
    out = []
    for i, ln in enumerate(lines):
        ln = _recase(ln, mode, what)
        if i == fold_line and len(ln) > 1:
            p = 1 + fold_pos % (len(ln) - 1)
            ln = ln[:p] + ("\r\n" if (lf_mask >> (i % 8)) & 1 == 0 else "\n") + (" " if fold_ws == 0 else "\t") + ln[p:]
        out.append(ln)
    text = ""
    for i, ln in enumerate(out):
        text += ln + ("\n" if (lf_mask >> (i % 8)) & 1 else "\r\n")
    text += "\r\n" * blanks
    if bom:
        text = "﻿" + text
    return text if as_str else text.encode("utf-8")


_REF = {}


def _reference(seed, pytz_provider):
    """tree and bytes of the canonical text (computed once per process and provider)"""
    key = (seed, pytz_provider)
    if key not in _REF:
        ref = Component.from_ical(_render(seed, 0, False, False, -1, 0, 0, 0, 0, 0))
        _REF[key] = (tree(ref), ref.to_ical())
    return _REF[key]


def _use(pytz_provider):
    from icalendar.timezone import tzp
    if pytz_provider:
        tzp.use_pytz()
    else:
        tzp.use_zoneinfo()


def _precompute():
    """reference trees are computed at import time (outside the traced call) so that every
    symbolic path executes exactly the same code"""
    from icalendar.timezone import tzp
    for pz in (False, True):
        _use(pz)
        for seed in range(len(SEEDS)):
            _reference(seed, pz)
    tzp.use_zoneinfo()


_precompute()


def h_rewrite(seed: int, ending: int, bom: bool, as_str: bool, blanks: int, mode: int, what: int,
              pytz_provider: bool) -> bool:
    """
    Line endings (all CRLF / all LF / alternating / one mixed pattern), BOM, str or bytes, trailing
    blank lines, combined with one letter-case rewrite (pinned per shard).

    pre: 0 <= seed < len(SEEDS) and pinned("seed", seed)
    pre: 0 <= ending <= 3 and 0 <= blanks <= 2 and 0 <= mode <= 2 and 0 <= what <= 3
    pre: pinned("what", what) and pinned("mode", mode) and pinned("pytz_provider", pytz_provider)
    post: _
    """
    from icalendar.timezone import tzp
    seed = pin("seed", seed); what = pin("what", what); mode = pin("mode", mode)
    pytz_provider = pin("pytz_provider", pytz_provider)
    _use(pytz_provider)
    try:
        ref_tree, ref_bytes = _reference(seed, pytz_provider)
        mask = [0, 255, 0x55, 6][_c(ending, 0, 3)]
        text = _render(seed, mask, bool(bom), bool(as_str), -1, 0, 0, _c(blanks, 0, 2), mode, what)
        got = Component.from_ical(text)
        return tree(got) == ref_tree and got.to_ical() == ref_bytes
    finally:
        tzp.use_zoneinfo()


def h_fold(seed: int, fold_line: int, where: int, fold_ws: int, lf: bool, pytz_provider: bool) -> bool:
    """
    One extra fold (CRLF or LF, then SP or TAB) inserted into any line of the seed: after the first
    character, in the middle (between two characters of the value, possibly next to a multi-octet
    character or an escape sequence), or before the last character.

    pre: 0 <= seed < len(SEEDS) and pinned("seed", seed)
    pre: 0 <= fold_line < 26 and 0 <= where <= 2 and 0 <= fold_ws <= 1
    pre: pinned("fold_ws", fold_ws) and pinned("pytz_provider", pytz_provider) and pinned("where", where)
    post: _
    """
    from icalendar.timezone import tzp
    seed = pin("seed", seed); fold_ws = pin("fold_ws", fold_ws); pytz_provider = pin("pytz_provider", pytz_provider)
    where = pin("where", where)
    _use(pytz_provider)
    try:
        ref_tree, ref_bytes = _reference(seed, pytz_provider)
        lines = _lines(seed)
        k = _c(fold_line, 0, 25)
        if k >= len(lines):
            return True
        n = len(lines[k])
        pos = [0, n // 2 - 1, n - 2][_c(where, 0, 2)]
        text = _render(seed, 255 if lf else 0, False, False, k, pos, fold_ws, 0, 0, 0)
        got = Component.from_ical(text)
        return tree(got) == ref_tree and got.to_ical() == ref_bytes
    finally:
        tzp.use_zoneinfo()
