"""C17 - components and parameter maps behave as dicts keyed by upper-cased names.

Inductive step on the real classes: an arbitrary pre-state over two names, populated UNDERNEATH the
overrides (OrderedDict.__setitem__) with all stored keys upper-case, then ONE mapping operation with
a key given in any letter case, as str or bytes; result, exception and post-state are compared with a
reference dict keyed by key.upper().  Histories of any length follow by induction.
"""
from collections import OrderedDict

from icalendar import Event
from icalendar.caselessdict import CaselessDict, canonsort_keys
from icalendar.parser import Parameters
from vcheck.consts import C17_OPS as OPS
from vcheck.hcommon import pin, pinned

KEYS = ["ab", "AB", "Ab", b"ab", b"aB", "cd", "CD", "cD", b"CD", "ef", "EF", b"Ef"]
CLASSES = [CaselessDict, Parameters, Event]


def _up(k):
    return (k.decode() if isinstance(k, bytes) else k).upper()


def _build(cls, pa, va, pb, vb, ab_first):
    d = cls()
    ref = {}
    order = [("AB", pa, va), ("CD", pb, vb)]
    if not ab_first:
        order.reverse()
    for name, present, val in order:
        if present:
            OrderedDict.__setitem__(d, name, val)
            ref[name] = val
    return d, ref


def _same(d, ref):
    """stored keys upper-case only, same content, same (first-insertion) order."""
    items = list(OrderedDict.items(d))
    return items == list(ref.items()) and all(k == k.upper() and isinstance(k, str) for k, _ in items)


def h_step(cls: int, op: int, pa: bool, va: int, pb: bool, vb: int, ab_first: bool, k: int,
           k2: int, v: int, v2: int) -> bool:
    """
    pre: 0 <= cls < len(CLASSES) and pinned("cls", cls)
    pre: 0 <= op < len(OPS) and pinned("op", op)
    pre: 0 <= va <= 1 and 0 <= vb <= 1 and 0 <= v <= 3 and 2 <= v2 <= 3
    pre: 0 <= k < len(KEYS) and 0 <= k2 < len(KEYS)
    post: _
    """
    cls = pin("cls", cls)
    op = pin("op", op)
    klass = CLASSES[cls]
    d, ref = _build(klass, pa, va, pb, vb, ab_first)
    name = OPS[op]
    key = KEYS[k]
    K = _up(key)
    if name in ("update_dict", "update_pairs", "update_kwargs", "ctor_mapping", "ctor_pairs"):
        key2 = KEYS[k2]
        K2 = _up(key2)
    if name == "getitem":
        try:
            r = d[key]
        except KeyError:
            return K not in ref and _same(d, ref)
        return K in ref and r == ref[K] and _same(d, ref)
    if name == "setitem":
        d[key] = v
        ref[K] = v
        return _same(d, ref)
    if name == "delitem":
        try:
            del d[key]
        except KeyError:
            return K not in ref and _same(d, ref)
        if K not in ref:
            return False
        del ref[K]
        return _same(d, ref)
    if name == "contains":
        return (key in d) == (K in ref) and _same(d, ref)
    if name == "get":
        return d.get(key) == ref.get(K) and d.get(key, v) == ref.get(K, v) and _same(d, ref)
    if name == "pop":
        # documented signature: pop(key, default=None) - a missing key returns the default;
        # a stored None is a value like any other
        if v == 0 and "AB" in ref:
            OrderedDict.__setitem__(d, "AB", None)
            ref["AB"] = None
        r = d.pop(key)
        e = ref.pop(K, None)
        return r == e and _same(d, ref)
    if name == "pop_default":
        r = d.pop(key, v)
        e = ref.pop(K, v)
        return r == e and _same(d, ref)
    if name == "setdefault":
        r = d.setdefault(key, v)
        e = ref.setdefault(K, v)
        return r == e and _same(d, ref)
    if name == "update_dict":
        d.update({key: v, key2: v2})
        ref[K] = v
        ref[K2] = v2
        return _same(d, ref)
    if name == "update_pairs":
        d.update([(key, v), (key2, v2)])
        ref[K] = v
        ref[K2] = v2
        return _same(d, ref)
    if name == "update_kwargs":
        if isinstance(key, bytes) or isinstance(key2, bytes):
            return True
        d.update(**{key: v}, **({} if key2 == key else {key2: v2}))
        ref[K] = v
        if key2 != key:
            ref[K2] = v2
        return _same(d, ref)
    if name == "copy":
        c = d.copy()
        if type(c) is not klass or not _same(c, ref):
            return False
        c[key] = v
        return _same(d, ref)  # the copy is independent
    if name == "eq":
        if klass is Event:
            other = Event()
        else:
            other = klass()
        for kk, vv in ref.items():
            other[kk.lower()] = vv
        if d != other or not (d == other):
            return False
        other[key] = v
        exp_equal = (K in ref and ref[K] == v)
        return (d == other) == exp_equal and (d != other) == (not exp_equal)
    if name == "eq_mapping":
        if klass is Event:
            return True  # Component equality with non-components is C20's subject
        # equal to any mapping with the same upper-cased content; key order is irrelevant
        plain = {kk: vv for kk, vv in reversed(list(ref.items()))}
        if not (d == plain) or d != plain:
            return False
        plain[K] = v
        exp_equal = (K in ref and ref[K] == v)
        return (d == plain) == exp_equal
    if name == "or":
        if isinstance(key, bytes):
            return True
        r = d | {key: v}
        e = {}
        for kk, vv in ref.items():  # (CrossHair's dict(ref) copy was measured not to keep order)
            e[kk] = vv
        e[K] = v
        return type(r) is klass and _same(r, e) and _same(d, ref)
    if name == "ior":
        if isinstance(key, bytes):
            return True
        d |= {key: v}
        ref[K] = v
        return type(d) is klass and _same(d, ref)
    if name == "ctor_mapping":
        if klass is Event:
            n = klass({key: v, key2: v2})
        else:
            n = klass({key: v, key2: v2})
        e = {}
        e[K] = v
        e[K2] = v2
        # constructor from a mapping with case-colliding keys: last value wins, upper-case keys only
        return dict(OrderedDict.items(n)) == e and all(x == x.upper() for x in OrderedDict.keys(n))
    if name == "ctor_pairs":
        n = klass([(key, v), (key2, v2)])
        e = {}
        e[K] = v
        e[K2] = v2
        return dict(OrderedDict.items(n)) == e and all(x == x.upper() for x in OrderedDict.keys(n))
    if name == "ctor_kwargs":
        if isinstance(key, bytes):
            return True
        n = klass(**{key: v})
        return list(OrderedDict.items(n)) == [(K, v)]
    if name == "has_key":
        return d.has_key(key) == (K in ref) and _same(d, ref)
    if name == "iter_len":
        return list(d) == list(ref) and len(d) == len(ref) and list(d.keys()) == list(ref.keys()) \
            and list(d.values()) == list(ref.values())
    return False


KEYS3 = ["ab", "AB", "Ab", b"ab", b"aB", "cd", "CD"]


def h_update3(cls: int, mode: int, pa: bool, k: int, k2: int, k3: int) -> bool:
    """
    update()/constructor with THREE entries whose names may collide in any spelling pattern
    (a, A, a / str, bytes, str ...), given as pairs, as a mapping plus keywords, or as pairs plus
    keywords: the result is what assigning the entries one after the other gives.

    pre: 0 <= cls < len(CLASSES) and pinned("cls", cls)
    pre: 0 <= mode <= 3 and pinned("mode", mode)
    pre: 0 <= k < len(KEYS3) and 0 <= k2 < len(KEYS3) and 0 <= k3 < len(KEYS3)
    post: _
    """
    cls = pin("cls", cls)
    mode = pin("mode", mode)
    klass = CLASSES[cls]
    key, key2, key3 = KEYS3[k], KEYS3[k2], KEYS3[k3]
    d, ref = _build(klass, pa, 0, False, 0, True)
    if mode == 0:
        d.update([(key, 1), (key2, 2), (key3, 3)])
    elif mode == 1:
        if isinstance(key3, bytes):
            return True
        d.update([(key, 1), (key2, 2)], **{key3: 3})
    elif mode == 2:
        if isinstance(key3, bytes) or key == key2:
            return True
        d.update({key: 1, key2: 2}, **{key3: 3})
    else:
        d = klass([(key, 1), (key2, 2), (key3, 3)])
        ref = {}
    ref[_up(key)] = 1
    ref[_up(key2)] = 2
    ref[_up(key3)] = 3
    if mode == 3:
        return dict(OrderedDict.items(d)) == ref and all(x == x.upper() for x in OrderedDict.keys(d))
    return _same(d, ref)


POOL = ["SUMMARY", "DTSTART", "UID", "X-A", "ATTENDEE", "A"]


def h_canonsort(k0: str, k1: str, k2: str, n: int, usecanon: bool) -> bool:
    """
    canonsort_keys on symbolic one-letter names: a permutation of the input; names in
    canonical_order first, in the declared order (here D before B); all other names after them,
    sorted ascending.

    pre: len(k0) == 1 and len(k1) == 1 and len(k2) == 1
    pre: "A" <= k0 <= "F" and "A" <= k1 <= "F" and "A" <= k2 <= "F"
    pre: k0 != k1 and k0 != k2 and k1 != k2
    pre: 0 <= n <= 3
    post: _
    """
    keys = [k0, k1, k2][:n]
    canon = ("D", "B")
    out = canonsort_keys(keys, canon if usecanon else None)
    if len(out) != len(keys) or any(k not in out for k in keys):
        return False
    if not usecanon:
        return all(out[i] < out[i + 1] for i in range(len(out) - 1))
    head = [k for k in out if k == "D" or k == "B"]
    tail = [k for k in out if not (k == "D" or k == "B")]
    if out != head + tail:
        return False
    if head != [k for k in canon if k in keys]:
        return False
    return all(tail[i] < tail[i + 1] for i in range(len(tail) - 1))


def h_sorted_keys(cls: int, i0: int, i1: int, i2: int) -> bool:
    """
    sorted_keys()/sorted_items() of the real classes use the class's canonical_order.

    pre: 0 <= cls <= 2 and pinned("cls", cls)
    pre: 0 <= i0 < 6 and 0 <= i1 < 6 and 0 <= i2 < 6
    pre: i0 != i1 and i0 != i2 and i1 != i2
    post: _
    """
    klass = CLASSES[pin("cls", cls)]
    d = klass()
    for i in (i0, i1, i2):
        d[POOL[i].lower()] = i
    canon = list(klass.canonical_order or [])
    keys = [POOL[i] for i in (i0, i1, i2)]
    exp = [k for k in canon if k in keys] + sorted(k for k in keys if k not in canon)
    return d.sorted_keys() == exp and d.sorted_items() == [(k, d[k]) for k in exp]
