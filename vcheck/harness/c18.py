"""C18 - used-timezone discovery is complete; adding missing timezones closes it.

Real code executed: Calendar.get_used_tzids / get_missing_tzids / add_missing_timezones / timezones,
Timezone.tz_name, Timezone.from_tzid, Component.property_items / walk, TZP.timezone.
Stub (symbolic runs only): Timezone.from_tzinfo (the numeric search over a C tz object, property
C13) returns a minimal VTIMEZONE carrying the tzid it was given - its documented contract.
"""
from datetime import date, datetime, timedelta
from zoneinfo import ZoneInfo

from icalendar import Alarm, Calendar, Event, Journal, Timezone, TimezoneStandard, Todo
from icalendar.prop import vDDDTypes
from vcheck.hcommon import SYMBOLIC, pin, pinned

# tz choices for a property: 0 none (floating), 1..: an id
TZIDS = [None, "Europe/Vienna", "America/New_York", "AAA/Unknown_Zone", "/Europe/Berlin", "Unknown/Zone"]
KNOWN = {"Europe/Vienna", "America/New_York", "/Europe/Berlin", "Asia/Tokyo"}
# Pre-load the zones outside the traced call: under CrossHair zoneinfo is the pure-Python
# implementation and parsing a TZif file under the tracer costs seconds per path; ZoneInfo() is
# cached by key, so later constructions inside the harness are cache hits.
_ZONES = {z: ZoneInfo(z) for z in ("Europe/Vienna", "America/New_York", "Europe/Berlin", "Asia/Tokyo", "UTC")}
VT_IDS = ["Europe/Vienna", "America/New_York", "Asia/Tokyo", "AAA/Unknown_Zone"]


def _stub_from_tzinfo():
    if not SYMBOLIC:
        return

    def from_tzinfo(cls, timezone, tzid=None, first_date=None, last_date=None):
        tz = cls()
        tz.add("TZID", tzid)
        sub = TimezoneStandard()
        sub.add("DTSTART", datetime(1970, 1, 1))
        sub.add("TZOFFSETFROM", timedelta(0))
        sub.add("TZOFFSETTO", timedelta(0))
        sub.add("TZNAME", "STUB")
        tz.add_component(sub)
        return tz
    Timezone.from_tzinfo = classmethod(from_tzinfo)


def _zoned(i, hour):
    tzid = TZIDS[i]
    dt = datetime(2020, 6, 1, hour, 0, 0)
    if tzid is None:
        return vDDDTypes(dt)
    if tzid in ("Unknown/Zone", "AAA/Unknown_Zone", "/Europe/Berlin"):
        v = vDDDTypes(dt)
        v.params["TZID"] = tzid
        return v
    return vDDDTypes(dt.replace(tzinfo=ZoneInfo(tzid)))


def _vtimezone(tzid):
    tz = Timezone()
    tz.add("TZID", tzid)
    sub = TimezoneStandard()
    sub.add("DTSTART", datetime(1970, 1, 1))
    sub.add("TZOFFSETFROM", timedelta(hours=1))
    sub.add("TZOFFSETTO", timedelta(hours=1))
    tz.add_component(sub)
    return tz


def h_closure(t1: int, t2: int, t3: int, t4: int, n0: int, n1: int, n2: int, n3: int,
              vt_first: bool) -> bool:
    """
    pre: 0 <= t1 < 5 and 0 <= t2 < 3 and 0 <= t3 < 3 and 3 <= t4 < 6 and pinned("t1", t1)
    pre: 0 <= n0 <= 2 and 0 <= n1 <= 2 and 0 <= n2 <= 2 and 0 <= n3 <= 1
    pre: pinned("n0", n0) and pinned("n1", n1) and pinned("n2", n2) and pinned("n3", n3)
    pre: pinned("vt_first", vt_first)
    post: _
    """
    n0 = pin("n0", n0); n1 = pin("n1", n1); n2 = pin("n2", n2); n3 = pin("n3", n3); t1 = pin("t1", t1)
    vt_first = pin("vt_first", vt_first)
    _stub_from_tzinfo()
    cal = Calendar()
    counts = [n0, n1, n2, n3]
    present = {}

    def add_vts():
        for tzid, n in zip(VT_IDS, counts):
            for _ in range(n):
                cal.add_component(_vtimezone(tzid))
            if n:
                present[tzid] = n
    if vt_first:
        add_vts()
    ev = Event()
    ev.add("DTSTART", _zoned(t1, 10), encode=0)                 # depth 1, single value
    todo = Todo()
    todo.add("RDATE", _zoned(t2, 11), encode=0)                 # multi-valued: two entries of one name
    todo.add("RDATE", _zoned(t3, 12), encode=0)
    al = Alarm()
    jr = Journal()
    jr.add("RECURRENCE-ID", _zoned(t4, 13), encode=0)           # depth 4
    al.add_component(jr)
    todo.add_component(al)
    ev.add_component(todo)
    cal.add_component(ev)
    if not vt_first:
        add_vts()
    # (plain sorted lists instead of set algebra: CrossHair's lazy set combinators are slow)
    used = []
    for i in (t1, t2, t3, t4):
        z = TZIDS[i]
        if z is not None and z not in used:
            used.append(z)
    used.sort()
    if sorted(cal.get_used_tzids()) != used:
        return False
    missing = [z for z in used if z not in present]
    if sorted(cal.get_missing_tzids()) != missing:
        return False
    before = len(cal.subcomponents)
    cal.add_missing_timezones()
    addable = [z for z in missing if z in KNOWN]
    if len(cal.subcomponents) != before + len(addable):
        return False
    names = [tz.tz_name for tz in cal.timezones]
    for z in addable:
        if names.count(z) != 1:
            return False
    for z in used:
        if z in KNOWN and names.count(z) < 1:
            return False
    if sorted(cal.get_used_tzids()) != used:
        return False
    if sorted(cal.get_missing_tzids()) != [z for z in missing if z not in KNOWN]:
        return False
    n_after = len(cal.subcomponents)
    cal.add_missing_timezones()
    return len(cal.subcomponents) == n_after


def h_freebusy(t1: int, t2: int, n0: int) -> bool:
    """
    PERIOD values (FREEBUSY entries) and DATE lists carry TZIDs too.

    pre: 0 <= t1 < 3 and 0 <= t2 < 3 and 0 <= n0 <= 1
    post: _
    """
    from icalendar import FreeBusy
    from icalendar.prop import vPeriod, vDDDLists
    _stub_from_tzinfo()
    cal = Calendar()
    fb = FreeBusy()
    used = set()
    for t, h in ((t1, 8), (t2, 9)):
        tzid = TZIDS[t]
        start = datetime(2020, 6, 1, h, 0, 0)
        if tzid:
            start = start.replace(tzinfo=ZoneInfo(tzid))
            used.add(tzid)
        fb.add("FREEBUSY", vPeriod((start, timedelta(hours=1))), encode=0)
    ev = Event()
    tzid = TZIDS[t2]
    if tzid:
        ev.add("EXDATE", [datetime(2020, 6, 2, 8, tzinfo=ZoneInfo(tzid)), datetime(2020, 6, 3, 8, tzinfo=ZoneInfo(tzid))])
    else:
        ev.add("EXDATE", [date(2020, 6, 2)])
    cal.add_component(fb)
    cal.add_component(ev)
    if n0:
        cal.add_component(_vtimezone("Europe/Vienna"))
    used = sorted(used)
    if sorted(cal.get_used_tzids()) != used:
        return False
    exp_missing = [z for z in used if not (n0 and z == "Europe/Vienna")]
    if sorted(cal.get_missing_tzids()) != exp_missing:
        return False
    cal.add_missing_timezones()
    return sorted(cal.get_missing_tzids()) == [] and all(
        [tz.tz_name for tz in cal.timezones].count(z) == 1 for z in exp_missing)
