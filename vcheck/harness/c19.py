"""C19 - recurrence rules round-trip all parts, FREQ first.

Real code executed: vRecur.__init__ / to_ical / from_ical / parse_type, CaselessDict.sorted_items,
canonsort_keys, vWeekday, vFrequency, vMonth, vSkip, vInt, vDDDTypes (UNTIL), vText (RSCALE).
The selection of rule parts, their letter case, scalar/list shape and insertion order are symbolic;
the values of each part come from a small pool that is looped over.
"""
import re
from datetime import date, datetime
from zoneinfo import ZoneInfo

from icalendar.prop import vRecur
from vcheck.hcommon import pin, pinned, tier

N_MAX = tier(2, 3)

_UTC = ZoneInfo("UTC")
# (name, pool of values, expected text of each value)
PARTS = [
    ("RSCALE", ["GREGORIAN", "HEBREW"], ["GREGORIAN", "HEBREW"]),
    ("UNTIL", [date(2030, 1, 31), datetime(2030, 1, 31, 10, 0, 0), datetime(2030, 12, 31, 23, 59, 59, tzinfo=_UTC)],
     ["20300131", "20300131T100000", "20301231T235959Z"]),
    ("COUNT", [1, 10, 0], ["1", "10", "0"]),
    ("INTERVAL", [1, 2, 12], ["1", "2", "12"]),
    ("BYSECOND", [0, 59, 60], ["0", "59", "60"]),
    ("BYMINUTE", [0, 30, 59], ["0", "30", "59"]),
    ("BYHOUR", [0, 12, 23], ["0", "12", "23"]),
    ("BYDAY", ["MO", "-1SU", "+2FR", "53TH"], ["MO", "-1SU", "+2FR", "53TH"]),
    ("BYWEEKDAY", ["TU", "1WE", "-53SA"], ["TU", "1WE", "-53SA"]),
    ("BYMONTHDAY", [1, -1, 31], ["1", "-1", "31"]),
    ("BYYEARDAY", [1, -366, 366], ["1", "-366", "366"]),
    ("BYWEEKNO", [1, -53, 53], ["1", "-53", "53"]),
    ("BYMONTH", [1, 12, "5L", 5], ["1", "12", "5L", "5"]),
    ("BYSETPOS", [1, -1, 366], ["1", "-1", "366"]),
    ("WKST", ["SU", "MO", "SA"], ["SU", "MO", "SA"]),
    ("SKIP", ["OMIT", "FORWARD", "BACKWARD"], ["OMIT", "FORWARD", "BACKWARD"]),
]
FREQS = ["SECONDLY", "MINUTELY", "HOURLY", "DAILY", "WEEKLY", "MONTHLY", "YEARLY"]
CANON = ["RSCALE", "FREQ", "UNTIL", "COUNT", "INTERVAL", "BYSECOND", "BYMINUTE", "BYHOUR", "BYDAY", "BYWEEKDAY",
         "BYMONTHDAY", "BYYEARDAY", "BYWEEKNO", "BYMONTH", "BYSETPOS", "WKST", "SKIP"]
_NUM = r"[+-]?\d+"
_WD = r"(?:[+-]?\d{1,2})?(?:SU|MO|TU|WE|TH|FR|SA)"
GRAMMAR = re.compile(
    r"^(?:RSCALE=[A-Z0-9-]+;)?FREQ=(?:SECONDLY|MINUTELY|HOURLY|DAILY|WEEKLY|MONTHLY|YEARLY)"
    r"(?:;(?:UNTIL=\d{8}(?:T\d{6}Z?)?|COUNT=\d+|INTERVAL=\d+"
    r"|BY(?:SECOND|MINUTE|HOUR|MONTHDAY|YEARDAY|WEEKNO|SETPOS)=" + _NUM + r"(?:," + _NUM + r")*"
    r"|BYMONTH=\d+L?(?:,\d+L?)*"
    r"|BY(?:DAY|WEEKDAY)=" + _WD + r"(?:," + _WD + r")*"
    r"|WKST=(?:SU|MO|TU|WE|TH|FR|SA)|SKIP=(?:OMIT|FORWARD|BACKWARD)))*$")


def _concrete(x, n):
    for c in range(n):
        if x == c:
            return c
    return n - 1


def _check(freq, sel, j, aslist, lower, reverse, ctor):
    """one concrete rule: parts `sel` (indices into PARTS), value index j (mod pool size)."""
    items = [("FREQ", FREQS[freq], FREQS[freq], False)]
    for i in sel:
        name, pool, texts = PARTS[i]
        jj = j % len(pool)
        two = aslist and name not in ("RSCALE", "UNTIL", "COUNT", "INTERVAL", "WKST", "SKIP")
        if two:
            kk = (jj + 1) % len(pool)
            items.append((name, [pool[jj], pool[kk]], texts[jj] + "," + texts[kk], True))
        else:
            items.append((name, [pool[jj]] if aslist else pool[jj], texts[jj], aslist))
    if reverse:
        items = items[::-1]
    src = {}
    for name, val, _t, _l in items:
        src[name.lower() if lower else name] = val
    if ctor == 0:
        r = vRecur(src)            # positional mapping: scalars stay scalars
    else:
        r = vRecur(**src)          # keywords: scalars are wrapped into lists
    text = r.to_ical().decode("utf-8")
    by_name = {name: t for name, _v, t, _l in items}
    exp = ";".join(n + "=" + by_name[n] for n in CANON if n in by_name)
    if text != exp or not GRAMMAR.match(text):
        return False
    back = vRecur.from_ical(text)
    if list(back.keys()) != [n for n in CANON if n in by_name]:
        return False
    for name, val, _t, _l in items:
        want = val if isinstance(val, list) else [val]
        got = back[name]
        if not isinstance(got, list) or len(got) != len(want):
            return False
        for g, w in zip(got, want):
            if name == "BYMONTH":
                if str(g) != str(w):
                    return False
            elif isinstance(w, str):
                if g != w.upper():
                    return False
            elif g != w or type(g) is bool:
                return False
    return back.to_ical().decode("utf-8") == text


def h_recur(freq: int, n: int, i1: int, i2: int, i3: int, aslist: bool, lower: bool, reverse: bool,
            ctor: int) -> bool:
    """
    pre: freq == 0
    pre: 0 <= n <= N_MAX
    pre: 0 <= i1 < 16 and pinned("i1", i1)
    pre: (n < 2 or i1 < i2 < 16) and (n < 3 or i2 < i3 < 17)
    pre: 0 <= ctor <= 1 and pinned("ctor", ctor)
    post: _
    """
    i1 = pin("i1", i1)
    ctor = pin("ctor", ctor)
    n = _concrete(n, 4)
    sel = []
    if n >= 1:
        sel.append(i1)
    if n >= 2:
        sel.append(_concrete(i2, 16))
    if n >= 3:
        i3c = _concrete(i3, 17)
        if i3c < 16:
            sel.append(i3c)
    aslist = bool(aslist); lower = bool(lower); reverse = bool(reverse)
    for j in range(4):
        # the frequency varies with the selection and the value choice (all 7 occur over the shards)
        if not _check((sum(sel) + j) % 7, sel, j, aslist, lower, reverse, ctor):
            return False
    return True


def h_tolerant(freq: int, trailing: bool, lower: bool) -> bool:
    """
    from_ical tolerates a trailing ';' and lower-case input; a missing value is ValueError.

    pre: 0 <= freq < 7
    post: _
    """
    text = "FREQ=" + FREQS[_concrete(freq, 7)] + ";COUNT=3" + (";" if trailing else "")
    if lower:
        text = text.lower()
    r = vRecur.from_ical(text)
    return r.to_ical().decode() == "FREQ=" + FREQS[_concrete(freq, 7)] + ";COUNT=3"
