"""C11 (CrossHair part) - zoned date-times keep wall time, zone id and offset through real zones;
UTC-mandated properties keep the instant.

Real code executed: vDDDTypes / vDDDLists / vPeriod constructors (TZID derivation), vDatetime.to_ical /
from_ical, tzid_from_dt / tzid_from_tzinfo / tzids_from_tzinfo, TZP.timezone / clean_timezone_id /
localize / localize_utc, ZONEINFO / PYTZ providers, Component.add (UTC forcing), create_utc_property,
Component.to_ical / from_ical (TZID routing).
Zone, wall time, property shape, provider and tzinfo source are symbolic selectors over concrete
tables (real tz database objects cannot be symbolic); the full field ranges are decided by Engine S.
"""
from datetime import datetime, timedelta

import dateutil.tz
import pytz
from zoneinfo import ZoneInfo

from icalendar import Alarm, Event
from icalendar.cal import Component
from icalendar.prop import vDDDTypes, vPeriod
from icalendar.timezone import tzid_from_dt
from vcheck.hcommon import pin, pinned

ZONES = ["Europe/Vienna", "America/New_York", "Europe/London", "Africa/Abidjan", "Asia/Kathmandu", "Australia/Lord_Howe",
         "Pacific/Apia", "Etc/GMT+5", "Etc/UTC", "America/St_Johns"]
# wall times: ordinary, inside a spring-forward gap, inside a fall-back fold, around transitions, zero-offset winter
WALLS = [datetime(2020, 7, 1, 12, 0, 0), datetime(2020, 1, 15, 12, 0, 0), datetime(2020, 3, 29, 2, 30, 0), datetime(2020, 10, 25, 2, 30, 0),
         datetime(2020, 3, 8, 2, 30, 0), datetime(2020, 11, 1, 1, 30, 0), datetime(2020, 3, 29, 1, 59, 59), datetime(2020, 3, 29, 3, 0, 0),
         datetime(1950, 6, 1, 0, 0, 0), datetime(2037, 12, 31, 23, 59, 59), datetime(2011, 12, 30, 12, 0, 0), datetime(2020, 4, 5, 1, 45, 0)]
UTC = ZoneInfo("UTC")
_ZI = {z: ZoneInfo(z) for z in ZONES}
_PZ = {z: pytz.timezone(z) for z in ZONES}
_DU = {z: dateutil.tz.gettz(z) for z in ZONES}


def _c(x, lo, hi):
    for c in range(lo, hi + 1):
        if x == c:
            return c
    return hi


def _use(pytz_provider):
    from icalendar.timezone import tzp
    if pytz_provider:
        tzp.use_pytz()
    else:
        tzp.use_zoneinfo()


# aware values are built at import time (real C datetimes; pytz arithmetic on CrossHair's traced
# datetime/timedelta classes raises TypeError - an engine artefact, not library behaviour)
_AW = {}
_AW2 = {}
for _z in ZONES:
    for _w in WALLS:
        _AW[(_z, _w, 0)] = _w.replace(tzinfo=_ZI[_z])
        _AW[(_z, _w, 1)] = _PZ[_z].localize(_w)
        _AW[(_z, _w, 2)] = _w.replace(tzinfo=_DU[_z])
        try:
            _AW[(_z, _w, 3)] = _PZ[_z].localize(_w, is_dst=True)      # first occurrence of an ambiguous hour
        except Exception:
            _AW[(_z, _w, 3)] = _AW[(_z, _w, 1)]
        for _s in (0, 1, 2):
            _AW2[(_z, _w, _s)] = _AW[(_z, _w, _s)] + timedelta(days=400)
        # an earlier instant in the same zone (start of a period that ENDS at the wall time under test)
        _AW2[(_z, _w, 10)] = (_w - timedelta(days=400)).replace(tzinfo=_ZI[_z])
        _AW2[(_z, _w, 11)] = _PZ[_z].localize(_w - timedelta(days=400))
_UTCV = {}
for _w in WALLS:
    _UTCV[_w] = [_w.replace(tzinfo=UTC), pytz.utc.localize(_w), _w.replace(tzinfo=dateutil.tz.UTC)]
_HOUR = timedelta(hours=1)


def _aware(zone, wall, source):
    return _AW[(zone, wall, source)]


# (zone index, wall index) pairs whose wall time does not exist (spring-forward gap / skipped day)
GAPS = [(0, 2), (1, 4), (2, 6), (6, 10), (9, 4), (5, 2)]


def _is_gap(z, w):
    for gz, gw in GAPS:
        if z == gz and w == gw:
            return True
    return False


def h_zoned(z: int, w: int, shape: int, source: int, pytz_provider: bool) -> bool:
    """
    A zoned date-time as a single value (DTSTART), in a date list (RDATE), as a period start
    (FREEBUSY, duration form) or as the explicit END of a period (shape 3): written with the same
    wall-clock fields and TZID=<zone key>; parsed back with the same wall time, the same zone id and
    the UTC offset the active provider assigns to that wall time.

    pre: 0 <= z < len(ZONES) and 0 <= w < len(WALLS) and 0 <= shape <= 3 and 0 <= source <= 1
    pre: pinned("z", z) and pinned("pytz_provider", pytz_provider)
    pre: not (pytz_provider and _is_gap(z, w))
    post: _
    """
    from icalendar.timezone import tzp
    z = pin("z", z); pytz_provider = pin("pytz_provider", pytz_provider)
    _use(pytz_provider)
    try:
        zone = ZONES[z]
        wall = WALLS[_c(w, 0, len(WALLS) - 1)]
        src = _c(source, 0, 1)
        dt = _aware(zone, wall, src)
        ev = Event()
        sh = _c(shape, 0, 3)
        name = ["DTSTART", "RDATE", "FREEBUSY", "FREEBUSY"][sh]
        if sh == 0:
            ev.add("dtstart", dt)
        elif sh == 1:
            ev.add("rdate", [dt, _AW2[(zone, wall, src)]])
        elif sh == 2:
            ev.add("freebusy", vPeriod((dt, _HOUR)))
        else:
            ev.add("freebusy", vPeriod((_AW2[(zone, wall, 10 + src)], dt)))
        text = ev.to_ical().decode("utf-8").replace("\r\n ", "")
        line = [ln for ln in text.split("\r\n") if ln.startswith(name)][0]
        head, _, value = line.partition(":")
        fields = wall.strftime("%Y%m%dT%H%M%S")
        if sh == 3:
            value = value.partition("/")[2]      # the END of the period carries the wall time under test
        if ("TZID=" + zone) not in head.split(";") or not value.startswith(fields) or value[15:16] == "Z":
            return False
        back = Component.from_ical(ev.to_ical())
        prop = back[name]
        if sh == 0:
            got = prop.dt
        elif sh == 1:
            got = prop.dts[0].dt
        elif sh == 2:
            got = prop.start
        else:
            got = prop.end
        if prop.params.get("TZID") != zone:
            return False
        if got.replace(tzinfo=None) != wall or tzid_from_dt(got) != zone:
            return False
        expected_offset = tzp.localize(wall, zone).utcoffset()
        return got.utcoffset() == expected_offset
    finally:
        tzp.use_zoneinfo()


def h_dateutil_wall(z: int, w: int) -> bool:
    """
    tzinfo objects from dateutil: the wall time is kept and a TZID is written (dateutil zones are
    identified through the equivalence table, so only the wall time is claimed).

    pre: 0 <= z < len(ZONES) and 0 <= w < len(WALLS)
    post: _
    """
    zone = ZONES[_c(z, 0, len(ZONES) - 1)]
    wall = WALLS[_c(w, 0, len(WALLS) - 1)]
    dt = _AW[(zone, wall, 2)]
    ev = Event()
    ev.add("dtstart", dt)
    back = Component.from_ical(ev.to_ical())
    got = back["DTSTART"].dt
    return got.replace(tzinfo=None) == wall


def h_utc_marker(w: int, shape: int, source: int) -> bool:
    """
    UTC values are written with the Z suffix and no TZID, as single value, list and period.

    pre: 0 <= w < len(WALLS) and 0 <= shape <= 2 and 0 <= source <= 2
    post: _
    """
    wall = WALLS[_c(w, 0, len(WALLS) - 1)]
    src = _c(source, 0, 2)
    dt = _UTCV[wall][src]
    ev = Event()
    sh = _c(shape, 0, 2)
    name = ["DTSTART", "EXDATE", "FREEBUSY"][sh]
    if sh == 0:
        ev.add("dtstart", dt)
    elif sh == 1:
        ev.add("exdate", [dt])
    else:
        ev.add("freebusy", vPeriod((dt, _HOUR)))
    line = [ln for ln in ev.to_ical().decode().split("\r\n") if ln.startswith(name)][0]
    head, _, value = line.partition(":")
    if "TZID" in head or value[:16] != wall.strftime("%Y%m%dT%H%M%S") + "Z":
        return False
    back = Component.from_ical(ev.to_ical())
    prop = back[name]
    got = prop.dt if sh == 0 else (prop.dts[0].dt if sh == 1 else prop.start)
    return got == dt and got.utcoffset() == timedelta(0) and "TZID" not in prop.params


_EXPECT_UTC = {}
for _z in ZONES:
    for _w in WALLS:
        _EXPECT_UTC[(_z, _w, 0)] = _AW[(_z, _w, 0)].astimezone(UTC).strftime("%Y%m%dT%H%M%SZ")
        _EXPECT_UTC[(_z, _w, 1)] = _AW[(_z, _w, 1)].astimezone(pytz.utc).strftime("%Y%m%dT%H%M%SZ")
        _EXPECT_UTC[(_z, _w, 2)] = _AW[(_z, _w, 3)].astimezone(pytz.utc).strftime("%Y%m%dT%H%M%SZ")


def h_utc_property(p: int, route: int, z: int, w: int, source: int, pytz_provider: bool) -> bool:
    """
    DTSTAMP, CREATED, LAST-MODIFIED (add() and attribute setter) and ACKNOWLEDGED (setter) given a
    zoned or a floating date-time: the same instant in UTC with the Z suffix, no TZID; a floating
    value is taken as UTC.

    pre: 0 <= p <= 3 and 0 <= route <= 1 and 0 <= z <= len(ZONES) and 0 <= w < len(WALLS) and 0 <= source <= 2
    pre: pinned("pytz_provider", pytz_provider) and pinned("p", p)
    post: _
    """
    from icalendar.timezone import tzp
    pytz_provider = pin("pytz_provider", pytz_provider); p = pin("p", p)
    _use(pytz_provider)
    try:
        name = ["DTSTAMP", "CREATED", "LAST-MODIFIED", "ACKNOWLEDGED"][p]
        wall = WALLS[_c(w, 0, len(WALLS) - 1)]
        zi = _c(z, 0, len(ZONES))
        if zi == len(ZONES):
            dt = wall                                     # floating: taken as UTC
            expect = wall.strftime("%Y%m%dT%H%M%SZ")
        else:
            src = _c(source, 0, 2)
            dt = _aware(ZONES[zi], wall, 3 if src == 2 else src)     # 2: pytz value localized with is_dst=True
            expect = _EXPECT_UTC[(ZONES[zi], wall, src)]
        comp = Alarm() if name == "ACKNOWLEDGED" else Event()
        if (_c(route, 0, 1) == 0 and name != "ACKNOWLEDGED") or name == "CREATED":
            comp.add(name, dt)          # (there is no CREATED attribute setter)
        else:
            setattr(comp, name.replace("-", "_"), dt)
        line = [ln for ln in comp.to_ical().decode().split("\r\n") if ln.startswith(name)][0]
        if line != name + ":" + expect:
            return False
        back = Component.from_ical(comp.to_ical())
        got = back[name].dt
        return got.utcoffset() == timedelta(0) and got.strftime("%Y%m%dT%H%M%SZ") == expect
    finally:
        tzp.use_zoneinfo()


class _Zone:
    def __init__(self, **kw):
        self.__dict__.update(kw)


def h_tzid_selection(kind: int, k: int) -> bool:
    """
    tzid_from_tzinfo: the zone key of zoneinfo-like objects (.key), the zone of pytz-like objects
    (.zone), 'UTC' whenever the id is UTC, None for no tzinfo.

    pre: 0 <= kind <= 3 and 0 <= k <= 3
    post: _
    """
    from icalendar.timezone import tzid_from_tzinfo
    key = ["Europe/Vienna", "UTC", "X/Custom", "a b"][_c(k, 0, 3)]
    kd = _c(kind, 0, 3)
    if kd == 0:
        return tzid_from_tzinfo(None) is None
    if kd == 1:
        return tzid_from_tzinfo(_Zone(key=key)) == key
    if kd == 2:
        return tzid_from_tzinfo(_Zone(zone=key)) == key
    return tzid_from_tzinfo(_Zone(zone=key, key="other")) == key


def h_provider_lookup(k: int, decor: int, pytz_provider: bool) -> bool:
    """
    TZP.timezone(id): the provider's zone for the id, also when the id carries leading / trailing
    slashes (cleaning) or is a Windows zone name; None for an unknown id.

    pre: 0 <= k <= 5 and 0 <= decor <= 2
    post: _
    """
    from icalendar.timezone import tzp
    _use(bool(pytz_provider))
    try:
        ids = ["Europe/Vienna", "America/New_York", "UTC", "W. Europe Standard Time", "Eastern Standard Time", "No/Such_Zone"]
        expect = ["Europe/Vienna", "America/New_York", "UTC", "Europe/Berlin", "America/New_York", None]
        i = _c(k, 0, 5)
        given = ["%s", "/%s", "/%s/"][_c(decor, 0, 2)] % ids[i]
        tz = tzp.timezone(given)
        if expect[i] is None:
            return tz is None
        if tz is None:
            return False
        probe = datetime(2020, 7, 1, 12)
        return tzp.localize(probe, tz).utcoffset() == probe.replace(tzinfo=ZoneInfo(expect[i])).utcoffset()
    finally:
        tzp.use_zoneinfo()
