"""C15 - an alarm is active iff not acknowledged at/after its (snoozed) trigger.

Real code executed symbolically: icalendar.alarms.AlarmTime.{acknowledged,is_active,trigger},
Alarms.{add_component,add_alarm,acknowledge_until,snooze_until,times,active,_alarm_time},
Alarm.ACKNOWLEDGED / Component.DTSTAMP / X_MOZ_* descriptors (create_utc_property).

Instants are seconds-of-day on 2020-01-01 (all 86 400 of them, each optional): only the order of
the instants (including equality) is observable by the code under test.
"""
from datetime import datetime, timedelta, date
from typing import Optional

from icalendar import Alarm, Event, Todo
from icalendar.alarms import AlarmTime, Alarms, LocalTimezoneMissing
from vcheck.hcommon import mkdt, pinned, stub_utc

DAY = 86400


def _expected_active(t, a, c, s):
    """The statement's decision table over integer instants (None = absent)."""
    acks = [x for x in (a, c) if x is not None]
    if not acks:
        return True
    ack = max(acks)
    if s is not None and s > ack:
        return True
    trig = t if (s is None or s <= t) else s
    return trig > ack


def h_kernel(t: int, a: Optional[int], c: Optional[int], s: Optional[int]) -> bool:
    """
    pre: 0 <= t < DAY
    pre: a is None or 0 <= a < DAY
    pre: c is None or 0 <= c < DAY
    pre: s is None or 0 <= s < DAY
    post: _
    """
    utc = stub_utc()
    al = Alarm()
    if a is not None:
        al.ACKNOWLEDGED = mkdt(a, utc)
    at = AlarmTime(al, mkdt(t, utc), None if c is None else mkdt(c, utc),
                   None if s is None else mkdt(s, utc))
    # acknowledged-until = later of the alarm's ACKNOWLEDGED and the component acknowledgement
    acks = [x for x in (a, c) if x is not None]
    exp_ack = None if not acks else mkdt(max(acks), utc)
    if at.acknowledged != exp_ack:
        return False
    # a snooze later than the trigger moves the reported trigger
    exp_trig = mkdt(t if (s is None or s <= t) else s, utc)
    if at.trigger != exp_trig:
        return False
    return at.is_active() == _expected_active(t, a, c, s)


def h_monotone(t: int, a1: Optional[int], a2: Optional[int], c1: Optional[int], c2: Optional[int],
               s: Optional[int]) -> bool:
    """
    Moving either acknowledgement later (or adding one) never turns inactive into active.

    pre: 0 <= t < DAY
    pre: a1 is None or 0 <= a1 < DAY
    pre: a2 is None or 0 <= a2 < DAY
    pre: c1 is None or 0 <= c1 < DAY
    pre: c2 is None or 0 <= c2 < DAY
    pre: s is None or 0 <= s < DAY
    pre: a1 is None or (a2 is not None and a2 >= a1)
    pre: c1 is None or (c2 is not None and c2 >= c1)
    post: _
    """
    utc = stub_utc()

    def active(a, c):
        al = Alarm()
        if a is not None:
            al.ACKNOWLEDGED = mkdt(a, utc)
        return AlarmTime(al, mkdt(t, utc), None if c is None else mkdt(c, utc),
                         None if s is None else mkdt(s, utc)).is_active()
    early = active(a1, c1)
    late = active(a2, c2)
    return early or not late


def h_floating(t: int, a: Optional[int], c: Optional[int], s: Optional[int]) -> bool:
    """
    A floating (naive) trigger: the answer is the table's whenever it does not depend on comparing
    the trigger, and otherwise the only error is LocalTimezoneMissing.

    pre: 0 <= t < DAY
    pre: a is None or 0 <= a < DAY
    pre: c is None or 0 <= c < DAY
    pre: s is None or 0 <= s < DAY
    post: _
    """
    utc = stub_utc()
    al = Alarm()
    if a is not None:
        al.ACKNOWLEDGED = mkdt(a, utc)
    at = AlarmTime(al, mkdt(t, None), None if c is None else mkdt(c, utc),
                   None if s is None else mkdt(s, utc))
    acks = [x for x in (a, c) if x is not None]
    try:
        r = at.is_active()
    except LocalTimezoneMissing:
        # legitimate only if something is acknowledged and no snooze outlasts the acknowledgement
        return bool(acks) and not (s is not None and s > max(acks))
    if not acks:
        return r is True
    if s is not None and s > max(acks):
        return r is True
    # a snooze later than the floating trigger replaces it by an aware instant
    return False


def h_local(isdate: bool, t: int, off: int, a: Optional[int], c: Optional[int], s: Optional[int],
            setlocal: bool) -> bool:
    """
    A floating or DATE-valued start (all-day event) with a relative alarm, through the real Event:
    with a local time zone set the alarm is the table's answer at local wall time - offset; without
    one the only error is LocalTimezoneMissing, raised only when an aware comparison is needed.

    pre: pinned("isdate", isdate) and pinned("setlocal", setlocal)
    pre: 3600 <= t < 80000
    pre: -12 <= off <= 14 and pinned("off", off)
    pre: a is None or 0 <= a < DAY
    pre: c is None or 0 <= c < DAY
    pre: s is None or 0 <= s < DAY
    post: _
    """
    from datetime import timezone
    utc = stub_utc()
    ev = Event()
    # the component's own times are on 2020-01-02 so that +-14h offsets stay on 01..03 January
    if isdate:
        ev.start = date(2020, 1, 2)
        wall = datetime(2020, 1, 2)
    else:
        ev.start = mkdt(t, None, day=2)
        wall = mkdt(t, None, day=2)
    if s is not None:
        ev.add("X-MOZ-SNOOZE-TIME", __import__("icalendar").vDDDTypes(mkdt(s, utc, day=2)))
        if c is not None:
            ev.X_MOZ_LASTACK = mkdt(c, utc, day=2)
    elif c is not None:
        ev.DTSTAMP = mkdt(c, utc, day=2)
    al = Alarm()
    al.TRIGGER = timedelta(0)
    if a is not None:
        al.ACKNOWLEDGED = mkdt(a, utc, day=2)
    ev.add_component(al)
    alarms = ev.alarms
    acks = [x for x in (a, c) if x is not None]
    if setlocal:
        alarms.set_local_timezone(timezone(timedelta(hours=off)))
        # instants as seconds relative to 2020-01-02T00:00Z
        trig = (0 if isdate else t) - off * 3600
        exp = _expected_active(trig, a, c, s)
        return len(alarms.times) == 1 and (len(alarms.active) == 1) == exp
    try:
        act = alarms.active
    except LocalTimezoneMissing:
        return bool(acks) and not (s is not None and s > max(acks))
    if not acks or (s is not None and s > max(acks)):
        return len(act) == 1
    return False


def h_local_set(isdate: bool, t: int, off: int, a: int) -> bool:
    """
    Local zone set, one acknowledgement: a floating / DATE start becomes an aware trigger at
    wall time - offset and the alarm is active iff that instant is later than the acknowledgement.
    (CrossHair enumerates comparisons of aware datetimes with different tzinfo value by value -
    measured - so this condition is a finite window: acknowledgement within +-1 s of the trigger.)

    pre: pinned("isdate", isdate) and pinned("off", off)
    pre: 40000 <= t <= 40001
    pre: -12 <= off <= 14
    pre: 0 <= a < 3 * DAY
    pre: -1 <= DAY + (0 if isdate else t) - off * 3600 - a <= 1
    post: _
    """
    from datetime import timezone
    utc = stub_utc()
    ev = Event()
    ev.start = date(2020, 1, 2) if isdate else mkdt(t, None, day=2)
    al = Alarm()
    al.TRIGGER = timedelta(0)
    # acknowledgement anywhere on 1..3 January (seconds from 2020-01-01T00:00Z)
    al.ACKNOWLEDGED = mkdt(a % DAY, utc, day=1 + a // DAY)
    ev.add_component(al)
    alarms = ev.alarms
    alarms.set_local_timezone(timezone(timedelta(hours=off)))
    trig = DAY + (0 if isdate else t) - off * 3600
    return len(alarms.times) == 1 and (len(alarms.active) == 1) == (trig > a)


def _component(kind: int):
    return Event() if kind == 0 else Todo()


def h_wiring(kind: int, how: int, start: int, trig: int, a: Optional[int], c: Optional[int],
             s: Optional[int], rep: int, dur: int) -> bool:
    """
    Real Event/Todo with one alarm: component acknowledgement via DTSTAMP (Google style) or
    X-MOZ-LASTACK / X-MOZ-SNOOZE-TIME (Thunderbird), supplied by `add` with typed values (how=0)
    or through the attribute setters (how=1).  `active` must be exactly the sub-list of `times`
    that the decision table selects, in order.

    pre: 0 <= kind <= 1 and pinned("kind", kind)
    pre: 0 <= how <= 1 and pinned("how", how)
    pre: pinned("rep", rep)
    pre: 0 <= start < 40000
    pre: 0 <= trig <= 3600
    pre: a is None or 0 <= a < DAY
    pre: c is None or 0 <= c < DAY
    pre: s is None or 0 <= s < DAY
    pre: 0 <= rep <= 2
    pre: 1 <= dur <= 3600
    post: _
    """
    utc = stub_utc()
    comp = _component(kind)
    comp.start = mkdt(start, utc)
    thunderbird = s is not None
    from icalendar.prop import vDDDTypes
    if thunderbird:
        if how == 0:
            comp.add("X-MOZ-SNOOZE-TIME", vDDDTypes(mkdt(s, utc)))
            if c is not None:
                comp.add("X-MOZ-LASTACK", vDDDTypes(mkdt(c, utc)))
        else:
            comp.X_MOZ_SNOOZE_TIME = mkdt(s, utc)
            if c is not None:
                comp.X_MOZ_LASTACK = mkdt(c, utc)
    elif c is not None:
        if how == 0:
            comp.add("DTSTAMP", mkdt(c, utc))
        else:
            comp.DTSTAMP = mkdt(c, utc)
    al = Alarm()
    al.TRIGGER = timedelta(seconds=trig)
    if rep:
        al.REPEAT = rep
        al.DURATION = timedelta(seconds=dur)
    if a is not None:
        al.ACKNOWLEDGED = mkdt(a, utc)
    comp.add_component(al)
    alarms = comp.alarms
    times = alarms.times
    exp_times = [start + trig + k * dur for k in range(rep + 1)]
    if [x.trigger for x in times] != [mkdt(s if (s is not None and s > e) else e, utc) for e in exp_times]:
        return False
    active = alarms.active
    exp_active = [e for e in exp_times if _expected_active(e, a, c, s)]
    got = [x.trigger for x in active]
    if got != [mkdt(s if (s is not None and s > e) else e, utc) for e in exp_active]:
        return False
    # sub-list: every active entry is one of the `times` objects' triggers in order (checked above
    # by value); length can never exceed
    return len(active) <= len(times)
