"""C02 - a calendar built through the API survives serialise and parse intact.

Real code executed: Component.add / _encode / __setitem__, property descriptors
(create_single_property / create_utc_property setters), vDDDTypes / vDDDLists / vPeriod constructors
(VALUE and TZID derivation), TypesFactory.for_property / types_map, Component.to_ical / from_ical
(TZID routing, FREEBUSY splitting), every value codec of the pool.
The component kind, the property, its value kind, the multiplicity and the nesting are symbolic
selectors over a table of RFC 5545 properties with values of every documented kind.
"""
from datetime import date, datetime, timedelta
from zoneinfo import ZoneInfo

from icalendar import (Alarm, Calendar, Event, FreeBusy, Journal, Timezone, TimezoneDaylight,
                       TimezoneStandard, Todo)
from icalendar.cal import Component, types_factory
from icalendar.prop import (vBinary, vCalAddress, vCategory, vDDDLists, vDDDTypes, vFloat, vGeo, vInt,
                            vPeriod, vRecur, vText, vUri, vUTCOffset)
from vcheck.hcommon import pin, pinned

V = ZoneInfo("Europe/Vienna")
NY = ZoneInfo("America/New_York")
U = ZoneInfo("UTC")

# RFC 5545 sections 3.7 / 3.8 (+ RFC 9074 ACKNOWLEDGED): property name -> value class
RFC_TYPES = {
    "CALSCALE": vText, "METHOD": vText, "PRODID": vText, "VERSION": vText, "ATTACH": vUri, "CATEGORIES": vCategory,
    "CLASS": vText, "COMMENT": vText, "DESCRIPTION": vText, "GEO": vGeo, "LOCATION": vText, "PERCENT-COMPLETE": vInt,
    "PRIORITY": vInt, "RESOURCES": vText, "STATUS": vText, "SUMMARY": vText, "COMPLETED": vDDDTypes, "DTEND": vDDDTypes,
    "DUE": vDDDTypes, "DTSTART": vDDDTypes, "DURATION": vDDDTypes, "FREEBUSY": vPeriod, "TRANSP": vText, "TZID": vText,
    "TZNAME": vText, "TZOFFSETFROM": vUTCOffset, "TZOFFSETTO": vUTCOffset, "TZURL": vUri, "ATTENDEE": vCalAddress,
    "CONTACT": vText, "ORGANIZER": vCalAddress, "RECURRENCE-ID": vDDDTypes, "RELATED-TO": vText, "URL": vUri, "UID": vText,
    "EXDATE": vDDDLists, "RDATE": vDDDLists, "RRULE": vRecur, "ACTION": vText, "REPEAT": vInt, "TRIGGER": vDDDTypes,
    "CREATED": vDDDTypes, "DTSTAMP": vDDDTypes, "LAST-MODIFIED": vDDDTypes, "SEQUENCE": vInt, "REQUEST-STATUS": vText,
    "ACKNOWLEDGED": vDDDTypes, "EXRULE": vRecur,
}
RFC_NAMES = sorted(RFC_TYPES)


def _c(x, lo, hi):
    for c in range(lo, hi + 1):
        if x == c:
            return c
    return hi


def h_types(i: int, mode: int) -> bool:
    """
    Every RFC 5545 property name, in upper / lower / mixed case, is mapped to the value class the RFC
    assigns to it; unknown (X-/IANA) names are TEXT.

    pre: 0 <= i <= len(RFC_NAMES) and 0 <= mode <= 2
    post: _
    """
    i = _c(i, 0, len(RFC_NAMES))
    if i == len(RFC_NAMES):
        return types_factory.for_property("X-UNKNOWN-THING") is vText
    name = RFC_NAMES[i]
    given = [name, name.lower(), name.capitalize()][_c(mode, 0, 2)]
    return types_factory.for_property(given) is RFC_TYPES[name]


def _utc(dt):
    return dt.astimezone(U)


# (name, list of up to 3 python values, expected VALUE parameter or None, expected TZID or None, kind)
TABLE = [
    ("summary", ["Text, with; specials\\ and\nnewline", "second", "third"], None, None, "text"),
    ("description", ["d\\n literally", "e", "f"], None, None, "text"),
    ("comment", ["c1", "c2;", "c3,"], None, None, "text"),
    ("location", ["Room: 1"], None, None, "text"),
    ("uid", ["u@x"], None, None, "text"),
    ("class", ["PUBLIC"], None, None, "text"),
    ("status", ["CONFIRMED"], None, None, "text"),
    ("transp", ["OPAQUE"], None, None, "text"),
    ("contact", ["Jim; Dolittle", "other"], None, None, "text"),
    ("related-to", ["a@b", "c@d"], None, None, "text"),
    ("request-status", ["2.0;Success", "3.1;Invalid;x"], None, None, "text"),
    ("resources", ["EASEL", "PROJECTOR"], None, None, "text"),
    ("action", ["DISPLAY"], None, None, "text"),
    ("tzid", ["Custom/Zone"], None, None, "text"),
    ("tzname", ["CET", "CEST"], None, None, "text"),
    ("calscale", ["GREGORIAN"], None, None, "text"),
    ("method", ["PUBLISH"], None, None, "text"),
    ("prodid", ["-//a//b//EN"], None, None, "text"),
    ("version", ["2.0"], None, None, "text"),
    ("attendee", ["mailto:a@x", "mailto:b@x", "mailto:c@x"], None, None, "str"),
    ("organizer", ["mailto:o@x"], None, None, "str"),
    ("url", ["http://example.com/a?b=c;d"], None, None, "str"),
    ("tzurl", ["http://example.com/tz"], None, None, "str"),
    ("attach", ["http://example.com/doc,1", "ftp://x/y"], None, None, "str"),
    ("priority", [5, 0, 9], None, None, "int"),
    ("sequence", [0, 2147483647], None, None, "int"),
    ("percent-complete", [100, 0], None, None, "int"),
    ("repeat", [2], None, None, "int"),
    ("geo", [(37.386013, -122.082932), (0.0, -0.5), (1.23456789e-05, -2.5e-09)], None, None, "geo"),   # repr() of the last pair uses exponent notation
    ("dtstart", [date(2020, 2, 29)], "DATE", None, "dt"),
    ("dtstart", [date(966, 10, 14)], "DATE", None, "dt"),
    ("dtend", [datetime(800, 12, 25, 9, 0)], None, None, "dt"),
    ("freebusy", [vPeriod((datetime(2020, 3, 29, 3, 30, tzinfo=V), timedelta(hours=1)))], "PERIOD?", "Europe/Vienna", "period"),
    ("dtstart", [datetime(2020, 2, 29, 10, 0, 5)], None, None, "dt"),
    ("dtstart", [datetime(2020, 2, 29, 10, 0, 5, tzinfo=U)], None, None, "dt"),
    ("dtstart", [datetime(2020, 3, 29, 3, 30, tzinfo=V)], None, "Europe/Vienna", "dt"),
    ("dtend", [datetime(2020, 11, 1, 1, 30, tzinfo=NY)], None, "America/New_York", "dt"),
    ("due", [date(2021, 1, 1)], "DATE", None, "dt"),
    ("due", [datetime(2021, 1, 1, 0, 0, tzinfo=V)], None, "Europe/Vienna", "dt"),
    ("recurrence-id", [date(2020, 1, 1)], "DATE", None, "dt"),
    ("recurrence-id", [datetime(2020, 1, 1, 9, tzinfo=NY)], None, "America/New_York", "dt"),
    ("completed", [datetime(2020, 1, 1, 9, tzinfo=U)], None, None, "dt"),
    ("completed", [datetime(2020, 1, 1, 9, tzinfo=V)], None, "Europe/Vienna", "dt"),
    ("duration", [timedelta(hours=1, seconds=5)], None, None, "dt"),
    ("duration", [timedelta(days=-1)], None, None, "dt"),
    ("trigger", [timedelta(minutes=-15)], None, None, "dt"),
    ("trigger", [datetime(2020, 1, 1, 9, tzinfo=U)], "DATE-TIME", None, "dt"),
    ("created", [datetime(2020, 1, 1, 9)], None, None, "utc"),
    ("dtstamp", [datetime(2020, 1, 1, 9, tzinfo=V)], None, None, "utc"),
    ("last-modified", [datetime(2020, 6, 1, 9, tzinfo=NY)], None, None, "utc"),
    ("acknowledged", [datetime(2020, 6, 1, 9, tzinfo=U)], None, None, "dt"),
    ("rdate", [[date(2020, 1, 1), date(2020, 1, 2)], [date(2020, 2, 1)]], "DATE", None, "list"),
    ("rdate", [[datetime(2020, 1, 1, 9, tzinfo=V), datetime(2020, 1, 2, 9, tzinfo=V)]], None, "Europe/Vienna", "list"),
    ("rdate", [[(datetime(2020, 1, 1, 9, tzinfo=U), timedelta(hours=1)), (datetime(2020, 1, 2, 9, tzinfo=U), datetime(2020, 1, 2, 10, tzinfo=U))]], "PERIOD", None, "list"),
    ("exdate", [[datetime(2020, 1, 1, 9, tzinfo=U)], [datetime(2020, 1, 5, 9, tzinfo=U), datetime(2020, 1, 6, 9, tzinfo=U)]], None, None, "list"),
    ("exdate", [[datetime(2020, 1, 1, 9)]], None, None, "list"),
    ("rrule", [{"FREQ": ["WEEKLY"], "BYDAY": ["MO", "-1SU"], "COUNT": [3]}], None, None, "recur"),
    ("exrule", [{"FREQ": ["DAILY"], "UNTIL": [datetime(2020, 1, 1, 9, tzinfo=U)]}], None, None, "recur"),
    ("categories", [["a", "b,c", "d;e"], ["second"]], None, None, "cats"),
    ("freebusy", [vPeriod((datetime(2020, 1, 1, 9, tzinfo=U), timedelta(hours=1))), vPeriod((datetime(2020, 1, 2, 9, tzinfo=U), datetime(2020, 1, 2, 10, tzinfo=U)))], "PERIOD?", None, "period"),
    ("tzoffsetfrom", [timedelta(hours=1)], None, None, "offset"),
    ("tzoffsetto", [timedelta(hours=-5, minutes=-30)], None, None, "offset"),
]
# (ATTACH with a vBinary value is written with ENCODING=BASE64;VALUE=BINARY but the parser does not
#  look at VALUE: it comes back as a vUri holding the base64 text - known finding C02-K1, not in the table)
_UTC_EXPECTED = {}
for _row in TABLE:
    if _row[4] == "utc":
        for _v in _row[1]:
            _UTC_EXPECTED[id(_v)] = _v.replace(tzinfo=U) if _v.tzinfo is None else _v.astimezone(U)
KINDS = [Calendar, Event, Todo, Journal, FreeBusy, Timezone, TimezoneStandard, TimezoneDaylight, Alarm]


def _decoded(prop, kind):
    """python value of a parsed property object"""
    if kind in ("text", "str"):
        return str(prop)
    if kind == "int":
        return int(prop)
    if kind == "geo":
        return (prop.latitude, prop.longitude)
    if kind in ("dt", "utc"):
        return prop.dt
    if kind == "list":
        return [x.dt for x in prop.dts]
    if kind == "recur":
        return {k: list(v) for k, v in prop.items()}
    if kind == "cats":
        return [str(c) for c in prop.cats]
    if kind == "period":
        return prop.dt
    if kind == "offset":
        return prop.td
    if kind == "binary":
        return prop.obj
    raise AssertionError(kind)


def _expected(value, kind):
    if kind == "utc":
        return _UTC_EXPECTED[id(value)]
    if kind == "geo":
        return value
    if kind == "period":
        return value.dt
    if kind == "binary":
        return value.obj
    if kind == "recur":
        return {k.upper(): list(v) for k, v in value.items()}
    return value


def _same(got, want, kind):
    if kind == "text":
        want = want.replace("\r\n", "\n")
    if kind in ("dt", "utc") and isinstance(want, datetime):
        if not isinstance(got, datetime) or got != want:
            return False
        # same wall time and same zone awareness
        return (got.tzinfo is None) == (want.tzinfo is None) and got.replace(tzinfo=None) == want.replace(tzinfo=None)
    if kind == "list":
        if len(got) != len(want):
            return False
        return all(_same(g, w, "dt") if isinstance(w, datetime) else g == w for g, w in zip(got, want))
    if kind == "recur":
        return got == want
    return got == want


def h_build(comp: int, p: int, mult: int, nested: bool, setitem: bool, extra: bool) -> bool:
    """
    pre: 0 <= comp < len(KINDS) and pinned("comp", comp)
    pre: 0 <= p < len(TABLE) and 1 <= mult <= 3
    pre: pinned("chunk", p // 10)
    post: _
    """
    comp = pin("comp", comp)
    name, values, want_value, want_tzid, kind = TABLE[_c(p, 0, len(TABLE) - 1)]
    values = values[:_c(mult, 1, 3)]
    c = KINDS[comp]()
    if c.name == "VTIMEZONE" and name.upper() == "TZID":
        # a VTIMEZONE that has a TZID is registered with the provider when it is parsed and must then be a
        # usable definition (observances ...); without them it is rejected with ValueError (property C04)
        return True
    c.add("x-before", "b")
    if setitem and len(values) == 1 and kind in ("text", "int"):
        c[name] = types_factory.for_property(name)(values[0])     # item assignment with a typed value
    else:
        for v in values:
            if extra:
                c.add(name, v, parameters={"X-SOURCE": "import"})   # a caller-supplied parameter next to the derived ones
            else:
                c.add(name, v)
    c.add("x-after", "a")
    root = c
    if nested:
        root = Calendar()
        root.add("version", "2.0")
        mid = Event()
        mid.add("uid", "outer")
        mid.add_component(c)
        root.add_component(mid)
    ical = root.to_ical()
    back_root = Component.from_ical(ical)
    back = back_root
    if nested:
        if back_root.name != "VCALENDAR" or len(back_root.subcomponents) != 1:
            return False
        m2 = back_root.subcomponents[0]
        if m2.name != "VEVENT" or str(m2["UID"]) != "outer" or len(m2.subcomponents) != 1 or m2.errors:
            return False
        back = m2.subcomponents[0]
    if back.name != c.name or back.subcomponents or getattr(back, "errors", []):
        return False
    if sorted(back.keys()) != sorted(["X-BEFORE", "X-AFTER", name.upper()]):
        return False
    got = back[name.upper()]
    gots = got if isinstance(got, list) else [got]
    if len(gots) != len(values):
        return False
    # which physical lines were written for this property
    own = c.to_ical().decode("utf-8")
    if own not in ical.decode("utf-8"):
        return False     # a nested component is written exactly as it is written on its own
    lines = [ln for ln in own.replace("\r\n ", "").split("\r\n")
             if ln.upper().startswith(name.upper() + ":") or ln.upper().startswith(name.upper() + ";")]
    if len(lines) != len(values):
        return False
    for g, v, line in zip(gots, values, lines):
        if type(g) is not RFC_TYPES[name.upper()] and kind not in ("binary",):
            return False
        if not _same(_decoded(g, kind), _expected(v, kind), kind):
            return False
        head = line.split(":")[0].upper()
        if extra and not (setitem and len(values) == 1 and kind in ("text", "int")):
            if ";X-SOURCE=IMPORT" not in head or g.params.get("X-SOURCE") != "import":
                return False
        if want_value == "PERIOD?":
            pass        # PERIOD is FREEBUSY's default type: VALUE=PERIOD may be present or absent
        elif want_value is None:
            if ";VALUE=" in head:
                return False
        elif (";VALUE=" + want_value) not in head or g.params.get("VALUE") != want_value:
            return False
        if want_tzid is None:
            if ";TZID=" in head:
                return False
        elif (";TZID=" + want_tzid.upper()) not in head or g.params.get("TZID") != want_tzid:
            return False
    return str(back["X-BEFORE"]) == "b" and str(back["X-AFTER"]) == "a"


# built at import time: real C datetime objects (datetimes created inside a traced call are CrossHair's
# pure-Python datetimes, which the C ZoneInfo implementation rejects)
_SV = [date(2020, 2, 29), datetime(2020, 2, 29, 10, 0, 5), datetime(2020, 2, 29, 10, 0, 5, tzinfo=U), datetime(2020, 3, 29, 3, 30, tzinfo=V)]
_SV_UTC = [None, _SV[1].replace(tzinfo=U), _SV[2], _SV[3].astimezone(U)]


def h_setters(kind: int, which: int) -> bool:
    """
    The property setters (DTSTART / DTEND / DUE / DURATION / TRIGGER / DTSTAMP / LAST-MODIFIED /
    ACKNOWLEDGED ...) write what add() writes and survive serialise + parse.

    pre: 0 <= kind <= 3 and 0 <= which <= 3
    post: _
    """
    w = _c(which, 0, 3)
    v = _SV[w]
    k = _c(kind, 0, 3)
    if k == 0:
        c = Event(); c.DTSTART = v; c.DTEND = v; names = ["DTSTART", "DTEND"]
    elif k == 1:
        c = Todo(); c.start = v; c.end = v; names = ["DTSTART", "DUE"]
    elif k == 2:
        if not isinstance(v, datetime):
            return True
        c = Alarm(); c.TRIGGER = _SV_UTC[w]; names = ["TRIGGER"]
        v = _SV_UTC[w]
    else:
        if not isinstance(v, datetime):
            return True
        c = Event(); c.DTSTAMP = v; c.LAST_MODIFIED = v; names = ["DTSTAMP", "LAST-MODIFIED"]
        v = _SV_UTC[w]
    back = Component.from_ical(c.to_ical())
    text = c.to_ical().decode().upper()
    for n in names:
        if not _same(back[n].dt, v, "dt"):
            return False
        line = [ln for ln in text.split("\r\n") if ln.startswith(n)][0].split(":")[0]
        is_date = not isinstance(v, datetime)
        if is_date != (";VALUE=DATE" in line and ";VALUE=DATE-TIME" not in line):
            return False
        if n == "TRIGGER" and ";VALUE=DATE-TIME" not in line:
            return False
        zoned = isinstance(v, datetime) and v.tzinfo is V
        if zoned != (";TZID=EUROPE/VIENNA" in line):
            return False
    return True
