"""C10 - serialisation is deterministic, pure and insertion-order independent.

Real code executed: Component.to_ical / content_lines / property_items / content_line,
CaselessDict.sorted_keys / canonsort_keys, Parameters.to_ical(sorted), Contentline.from_parts,
vDatetime/vDDDTypes.to_ical (the TZID write), vRecur.to_ical, foldline.
The insertion history is a symbolic permutation index.
"""
import copy
from datetime import date, datetime, timedelta
from zoneinfo import ZoneInfo

from icalendar import Alarm, Calendar, Event, Todo
from icalendar.prop import vDatetime
from vcheck.hcommon import pin, pinned

_VIENNA = ZoneInfo("Europe/Vienna")
_UTC = ZoneInfo("UTC")


def _perm(n, p):
    """the p-th permutation of range(n) (factorial number system)"""
    items = list(range(n))
    out = []
    for i in range(n, 0, -1):
        out.append(items.pop(p % i))
        p //= i
    return out


def _props():
    """(name as inserted, value, parameters) - canonical and non-canonical names, typed values"""
    return [
        ("summary", "Text; with, specials", None),
        ("DTSTART", datetime(2020, 3, 29, 2, 30, tzinfo=_VIENNA), None),
        ("uid", "u-1@x", None),
        ("X-FOO", "bar", {"x-p": "1", "ALTREP": "cid:a,b", "language": "en"}),
        ("attendee", "mailto:a@x", {"role": "CHAIR", "CN": "A; B", "cutype": "INDIVIDUAL"}),
        ("rrule", {"FREQ": ["DAILY"], "COUNT": [3], "BYDAY": ["MO", "TU"]}, None),
        ("duration", timedelta(hours=1), None),
        ("categories", ["b", "a"], None),
    ]


def _snapshot(c):
    """observable state: names, values (ical + params) in order, recursively"""
    out = [c.name, list(c.keys())]
    for k in c.keys():
        vals = c[k] if isinstance(c[k], list) else [c[k]]
        for v in vals:
            params = getattr(v, "params", None)
            # (no repr()/str() here: CrossHair may short-circuit those builtins into symbolic results)
            out.append((k, type(v).__name__, list(params.items()) if params is not None else None,
                        getattr(v, "dt", None), v if isinstance(v, str) else None))
    out.append([_snapshot(s) for s in c.subcomponents])
    return out


def _balanced(ical):
    stack = []
    for line in ical.decode("utf-8").split("\r\n"):
        if line.startswith("BEGIN:"):
            stack.append(line[6:])
        elif line.startswith("END:"):
            if not stack or stack.pop() != line[4:]:
                return False
    return not stack and ical.endswith(b"\r\n")


def _build(order, chosen, nested, kind):
    c = Event() if kind == 0 else Todo()
    allp = _props()
    for i in order:
        name, value, params = allp[chosen[i]]
        c.add(name, value, parameters=copy.deepcopy(params))
    if nested:
        al = Alarm()
        al.add("trigger", timedelta(minutes=-5))
        al.add("action", "DISPLAY")
        al.add("description", "d")
        c.add_component(al)
        al2 = Alarm()
        al2.add("description", "second")
        al2.add("action", "AUDIO")
        c.add_component(al2)
    return c


def _concrete(x, n):
    """branch on a symbolic small int so that the rest of the path works with a plain int"""
    for c in range(n):
        if x == c:
            return c
    return n - 1


def _check_one(order, chosen, nested, kind):
    n = len(chosen)
    ref = _build(list(range(n)), chosen, nested, kind)
    x = _build(order, chosen, nested, kind)
    snap = _snapshot(x)
    one = x.to_ical()
    two = x.to_ical()
    if one != two or _snapshot(x) != snap:
        return False
    if one != ref.to_ical() or not _balanced(one):
        return False
    # sorted=False: exactly insertion order
    un = x.to_ical(sorted=False)
    if un != x.to_ical(sorted=False) or _snapshot(x) != snap or not _balanced(un):
        return False
    names = [_props()[chosen[i]][0].upper() for i in order]
    lines = [ln for ln in un.decode("utf-8").replace("\r\n ", "").split("\r\n") if ln]
    top = []
    depth = 0
    for ln in lines:
        if ln.startswith("BEGIN:"):
            depth += 1
            continue
        if ln.startswith("END:"):
            depth -= 1
            continue
        if depth == 1:
            nm = ln.split(":")[0].split(";")[0]
            if not top or top[-1] != nm:
                top.append(nm)
    return top == names


def h_perm(n: int, a: int, p: int, nested: bool, kind: int) -> bool:
    """
    For EVERY subset of n of the 8 pool properties whose smallest index is a (looped) and the symbolic insertion permutation
    p: sorted=True bytes independent of the insertion order; sorted=False exactly insertion order;
    twice identical; tree snapshot unchanged; BEGIN/END balanced.

    pre: 1 <= n <= 4 and pinned("n", n) and 0 <= a <= 8 - n and pinned("a", a)
    pre: 0 <= p < 24
    pre: 0 <= kind <= 1 and pinned("kind", kind) and pinned("nested", nested)
    post: _
    """
    import itertools
    n = pin("n", n)
    a = pin("a", a)
    kind = pin("kind", kind)
    nested = pin("nested", nested)
    fact = [1, 1, 2, 6, 24][n]
    if p >= fact:
        return True
    order = [_concrete(x, n) for x in _perm(n, p)]
    kind = _concrete(kind, 2)
    for chosen in itertools.combinations(range(8), n):
        if chosen[0] != a:
            continue
        if not _check_one(order, list(chosen), bool(nested), kind):
            return False
    return True


def h_nested_unsorted(p: int, q: int) -> bool:
    """
    sorted=False reaches every nesting level: the properties of a nested VEVENT and of its VALARM
    appear exactly in insertion order; subcomponents keep insertion order with both flags.

    pre: 0 <= p < 6 and 0 <= q < 6
    post: _
    """
    ev_names = ["summary", "dtstart", "uid"]
    al_names = ["trigger", "action", "description"]
    ev_vals = {"summary": "s", "dtstart": date(2020, 1, 1), "uid": "u"}
    al_vals = {"trigger": timedelta(minutes=-1), "action": "DISPLAY", "description": "d"}
    cal = Calendar()
    cal.add("version", "2.0")
    cal.add("prodid", "x")
    ev = Event()
    eo = [ev_names[i] for i in _perm(3, p)]
    for nm in eo:
        ev.add(nm, ev_vals[nm])
    al = Alarm()
    ao = [al_names[i] for i in _perm(3, q)]
    for nm in ao:
        al.add(nm, al_vals[nm])
    ev.add_component(al)
    td = Todo()
    td.add("summary", "t")
    cal.add_component(ev)
    cal.add_component(td)
    lines = [ln.split(":")[0].split(";")[0] for ln in cal.to_ical(sorted=False).decode().split("\r\n") if ln]
    exp = ["BEGIN", "VERSION", "PRODID", "BEGIN"] + [x.upper() for x in eo] + ["BEGIN"] + \
        [x.upper() for x in ao] + ["END", "END", "BEGIN", "SUMMARY", "END", "END"]
    if lines != exp:
        return False
    s = cal.to_ical().decode()
    return s.index("BEGIN:VEVENT") < s.index("BEGIN:VTODO") and _balanced(cal.to_ical()) \
        and cal.to_ical() == cal.to_ical()


def h_repeats(p: int, sorted_flag: bool) -> bool:
    """
    Repeated properties of one name keep their insertion order with both flags.

    pre: 0 <= p < 6
    post: _
    """
    vals = ["mailto:a", "mailto:b", "mailto:c"]
    order = _perm(3, p)
    ev = Event()
    ev.add("uid", "u")
    for i in order:
        ev.add("attendee", vals[i])
    ev.add("summary", "s")
    text = ev.to_ical(sorted=sorted_flag).decode()
    pos = [text.index("ATTENDEE:" + vals[i]) for i in order]
    return pos == sorted(pos) and ev.to_ical(sorted=sorted_flag) == ev.to_ical(sorted=sorted_flag)


def h_datetime_pure(kind: int, nparams: int) -> bool:
    """
    vDatetime.to_ical() used directly (it writes TZID into its own params while rendering):
    a second call gives the same bytes, and the component holding it serialises identically
    before and after.

    pre: 0 <= kind <= 2 and 0 <= nparams <= 3
    post: _
    """
    dt = [datetime(2020, 1, 1, 10), datetime(2020, 1, 1, 10, tzinfo=_UTC), datetime(2020, 1, 1, 10, tzinfo=_VIENNA)][kind]
    extra = [("X-SOURCE", "sync"), ("X-CONFIRMED", "yes"), ("ALTREP", "cid:1")][:nparams]
    ev = Event()
    ev.add("dtstart", dt, parameters=dict(extra))
    before = ev.to_ical()
    # (1) a component holding a FRESH vDatetime: the very first serialisation already equals the later ones
    fresh = Event()
    fresh["dtstart"] = vDatetime(dt, params=dict(extra))
    f1 = fresh.to_ical()
    f2 = fresh.to_ical()
    if f1 != f2 or f1 != before or fresh.to_ical(sorted=False) != fresh.to_ical(sorted=False):
        return False
    # (2) the value used directly
    v = vDatetime(dt, params=dict(extra))
    first = v.to_ical()
    params_after_first = list(v.params.items())
    second = v.to_ical()
    if first != second or list(v.params.items()) != params_after_first:
        return False
    ev2 = Event()
    ev2["dtstart"] = v
    one = ev2.to_ical()
    return one == ev2.to_ical() and ev.to_ical() == before and one == before


_ADDR = ["mailto:b@x", "mailto:a@x", "mailto:c@x"]
_QUOTE_IF = (",", ";", ":", " ", "'", "’")     # the characters dquote() quotes for


def _model_value(v):
    """hash-free model of one parameter value: list entries in the given order, repeats kept,
    each double-quoted when it contains a delimiter"""
    items = v if isinstance(v, list) else [v]
    out = []
    for it in items:
        out.append('"' + it + '"' if any(ch in it for ch in _QUOTE_IF) else it)
    return ",".join(out)


def h_hashseed(i0: int, i1: int, i2: int, j0: int, j1: int, p: int) -> bool:
    """
    Run under several PYTHONHASHSEED values (one registered condition per seed): the bytes equal a
    model rendering that uses only lists and sorted() - so any dependence on set/hash iteration
    order, or loss of repeated entries, shows as a deviation under at least one seed.
    Multi-valued parameters (MEMBER, DELEGATED-TO) with symbolic, possibly repeated entries; the
    insertion order of the parameters is a symbolic permutation; a zoned DTSTART and a multi-part
    RRULE given as dict ride along.

    pre: 0 <= i0 < 3 and 0 <= i1 < 3 and 0 <= i2 < 3 and 0 <= j0 < 2 and 0 <= j1 < 2 and 0 <= p < 6
    post: _
    """
    member = [_ADDR[_concrete(i0, 3)], _ADDR[_concrete(i1, 3)], _ADDR[_concrete(i2, 3)]]
    deleg = [_ADDR[_concrete(j0, 2)], _ADDR[_concrete(j1, 2)]]
    plist = [("MEMBER", member), ("DELEGATED-TO", deleg), ("CN", "A; B")]
    params = {}
    for k in _perm(3, _concrete(p, 6)):
        params[plist[k][0]] = list(plist[k][1]) if isinstance(plist[k][1], list) else plist[k][1]
    ev = Event()
    ev.add("attendee", "mailto:x@y", parameters=params)
    ev.add("dtstart", datetime(2020, 3, 29, 2, 30, tzinfo=_VIENNA))
    ev.add("dtend", datetime(2020, 3, 29, 2, 30, tzinfo=_UTC))
    ev.add("rrule", {"FREQ": ["WEEKLY"], "BYDAY": ["TU", "MO", "TU"], "BYMONTH": [3, 1], "COUNT": [4]})
    ev.add("categories", ["b", "a", "b"])
    got = ev.to_ical()
    if got != ev.to_ical():
        return False
    lines = got.decode("utf-8").replace("\r\n ", "").split("\r\n")
    att = "ATTENDEE;" + ";".join(k + "=" + _model_value(v) for k, v in sorted(plist)) + ":mailto:x@y"
    want = ["BEGIN:VEVENT",
            "DTSTART;TZID=Europe/Vienna:20200329T023000",
            "DTEND:20200329T023000Z",
            "RRULE:FREQ=WEEKLY;COUNT=4;BYDAY=TU,MO,TU;BYMONTH=3,1",
            att,
            "CATEGORIES:b,a,b",
            "END:VEVENT", ""]
    return lines == want
