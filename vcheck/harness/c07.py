"""C07 - TEXT escaping is lossless for every string: alone, as a property, in lists.

Kernels executed symbolically on fully symbolic Unicode strings: parser.escape_char,
parser.unescape_char.  Routes executed on strings over the critical alphabet (the value is
realized where the real code constructs a str subclass): vText.to_ical/from_ical,
Event.add -> to_ical -> from_ical (Contentline.from_parts / parts, foldline, unfold),
vCategory.to_ical/from_ical through CATEGORIES.
"""
from icalendar import Event
from icalendar.parser import escape_char, unescape_char
from icalendar.prop import vCategory, vText
from vcheck.hcommon import pin, pinned, tier

N_SYM = tier(3, 4)
N_B = tier(1, 2)
N_PROP = 3
ALPH = "\\nN;,:\"%2C\r\n a\u2028\x85"
BS = chr(92)


def _pick(n, c0, c1, c2):
    """string of length n over ALPH; later indices are only looked at when needed"""
    s = ""
    if n >= 1:
        s += ALPH[c0]
    if n >= 2:
        s += ALPH[c1]
    if n >= 3:
        s += ALPH[c2]
    return s


def norm(s):
    """the documented normalisations: literal backslash-N -> LF, CRLF -> LF"""
    return s.replace(BS + "N", "\n").replace("\r\n", "\n")


def h_codec(s: str) -> bool:
    """
    unescape_char(escape_char(s)) == norm(s) for every Unicode string.

    pre: len(s) <= N_SYM
    post: _
    """
    return unescape_char(escape_char(s)) == norm(s)


def h_encoded_form(s: str) -> bool:
    """
    The encoded form contains no raw line break and no unescaped semicolon or comma (each is
    preceded by an odd run of backslashes).

    pre: len(s) <= N_SYM
    post: _
    """
    e = escape_char(s)
    if "\n" in e:
        return False
    for i in range(len(e)):
        if e[i] == ";" or e[i] == ",":
            j = i - 1
            run = 0
            while j >= 0 and e[j] == BS:
                run += 1
                j -= 1
            if run % 2 == 0:
                return False
    return True


def kf_double_decode(s):
    """(Former finding C07-K1, now fixed - kept as a classifier of the once-failing region for the
    evidence samples.)  At PROPERTY level (serialise + parse) Contentline.parts() decodes
    backslash sequences in the value before the TEXT decoder decodes them again, so a text in which
    a backslash is immediately followed by one of  backslash n N ; ,  does not survive."""
    for i in range(len(s) - 1):
        if s[i] == BS and (s[i + 1] in (BS, "n", "N", ";", ",", "\n") or s[i + 1:i + 3] == "\r\n"):
            return True
    return False


def h_vtext(c0: int, c1: int, c2: int, n: int) -> bool:
    """
    The real vText class (a str subclass: the value is realized) over the critical alphabet.

    pre: 0 <= n <= 3 and 0 <= c0 < len(ALPH) and 0 <= c1 < len(ALPH) and 0 <= c2 < len(ALPH)
    pre: pinned("c0", c0)
    post: _
    """
    c0 = pin("c0", c0)
    s = _pick(n, c0, c1, c2)
    enc = vText(s).to_ical()
    if not isinstance(enc, bytes) or b"\n" in enc:
        return False
    dec = vText.from_ical(enc.decode("utf-8"))
    return isinstance(dec, vText) and str(dec) == norm(s) and str(vText.from_ical(enc)) == norm(s)


def h_property(c0: int, c1: int, c2: int, n: int) -> bool:
    """
    The text as a property value through Event.to_ical() and Event.from_ical().

    pre: 0 <= n <= N_PROP and 0 <= c0 < len(ALPH) and 0 <= c1 < len(ALPH) and 0 <= c2 < len(ALPH)
    pre: pinned("c0", c0)
    post: _
    """
    c0 = pin("c0", c0)
    s = _pick(n, c0, c1, c2)
    ev = Event()
    ev.add("summary", s)
    ev.add("x-other", "keep")
    ical = ev.to_ical()
    back = Event.from_ical(ical)
    if back.errors or str(back["X-OTHER"]) != "keep" or len(back) != 2:
        return False
    return str(back["SUMMARY"]) == norm(s) and back.to_ical() == Event.from_ical(back.to_ical()).to_ical()


def h_category_codec(a: str, b: str, two: bool) -> bool:
    """
    List codec: vCategory.from_ical(vCategory(items).to_ical()) == [norm(item)...] - items may
    contain commas, semicolons, backslashes and line breaks.

    pre: len(a) <= 2 and len(b) <= N_B
    post: _
    """
    items = [a, b] if two else [a]
    # vCategory stores vText(item): build the encoded form the same way to_ical does
    enc = ",".join(escape_char(x) for x in items)
    return vCategory.from_ical(enc) == [norm(x) for x in items]


def h_category_real(c0: int, c1: int, d0: int, n: int, m: int) -> bool:
    """
    The real vCategory class over the critical alphabet (values realized): to_ical, from_ical,
    iteration.

    pre: 0 <= n <= 2 and 0 <= m <= 1
    pre: 0 <= c0 < len(ALPH) and 0 <= c1 < len(ALPH) and 0 <= d0 < len(ALPH)
    pre: pinned("c0", c0)
    post: _
    """
    c0 = pin("c0", c0)
    x = _pick(n, c0, c1, 0)
    y = _pick(m, d0, 0, 0)
    cat = vCategory([x, y])
    enc = cat.to_ical()
    want = [norm(x), norm(y)]
    return b"\n" not in enc and vCategory.from_ical(enc) == want and list(cat) == want
