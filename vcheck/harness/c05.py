"""C05 - content-line join/split are inverse; values cannot inject structure.

Real code executed: Contentline.from_parts / parts / __new__, Parameters.to_ical / from_ical,
dquote, q_split, validate_token, validate_param_value, vText/vUri/vCalAddress/vInline/vInt codecs,
Component.add / to_ical / from_ical (error routing of VEVENT).
Parameter value and property value are strings over the delimiter/escape alphabet.
"""
from icalendar import Calendar, Event
from icalendar.parser import Contentline, Parameters
from icalendar.prop import vCalAddress, vInline, vText, vUri
from vcheck.hcommon import pin, pinned, tier

PN_MAX = 1
VN_MAX = tier(2, 3)
INJ_MAX = tier(3, 4)

BS = chr(92)
ALPH = BS + ";:,\"%2C=\r\n aB\u2028\x85"          # \ ; : , " % 2 C = CR LF SP a B LS NEL
INJ = "\";:=,a" + BS + "\u2028"         # focused alphabet for structure injection (incl. a Unicode line separator)
KINDS = ["text", "uri", "cal-address", "inline"]


def _pick(alph, n, c0, c1, c2, c3=0):
    s = ""
    if n >= 1:
        s += alph[c0]
    if n >= 2:
        s += alph[c1]
    if n >= 3:
        s += alph[c2]
    if n >= 4:
        s += alph[c3]
    return s


def norm(s):
    return s.replace(BS + "N", "\n").replace("\r\n", "\n")


def kf_param(v):
    """known finding C08-K1: parameter values containing a backslash or %2C/%3A/%3B/%5C"""
    return BS in v or "%2C" in v or "%3A" in v or "%3B" in v or "%5C" in v


def kf_nontext_value(v):
    """known finding C05-K1: in values of non-TEXT types Contentline.parts decodes the backslash
    sequences backslash-backslash, backslash-comma, backslash-semicolon, backslash-colon (pinned by
    test_parsing.test_escaped_characters_read)"""
    for i in range(len(v) - 1):
        if v[i] == BS and v[i + 1] in (BS, ",", ";", ":"):
            return True
    return False


def _wrap(kind, val):
    if kind == "text":
        return vText(val)
    if kind == "uri":
        return vUri(val)
    if kind == "cal-address":
        return vCalAddress(val)
    return vInline(val)


def h_roundtrip(kind: int, pn: int, p0: int, p1: int, vn: int, v0: int, v1: int, v2: int) -> bool:
    """
    from_parts then parts: serialisation is refused (raw LF), or the line is rejected (ValueError),
    or the parts are exactly (NAME, {P: value}, text) - same name, the one parameter with its
    value, and a value text that decodes to the value.

    pre: 0 <= kind < 4 and pinned("kind", kind)
    pre: 0 <= pn <= PN_MAX and 0 <= vn <= VN_MAX
    pre: 0 <= p0 < len(ALPH) and 0 <= p1 < len(ALPH)
    pre: 0 <= v0 < len(ALPH) and 0 <= v1 < len(ALPH) and 0 <= v2 < len(ALPH)
    pre: pinned("p0", p0)
    post: _
    """
    kind = KINDS[pin("kind", kind)]
    p0 = pin("p0", p0)
    pv = _pick(ALPH, pn, p0, p1, 0)
    val = _pick(ALPH, vn, v0, v1, v2)
    params = Parameters({"X-P": pv})
    try:
        line = Contentline.from_parts("X-NAME", params, _wrap(kind, val))
    except AssertionError:
        # refused: only legitimate for a raw line break that the value type does not escape
        return "\n" in pv or (kind != "text" and "\n" in val)
    text_kind = kind == "text"
    try:
        name, back, value = line.parts(text=text_kind)
    except ValueError:
        # the property alone is rejected: legitimate only if the parameter value cannot be
        # represented (control characters / it is a known-finding value)
        return any(ord(ch) < 32 for ch in pv) or kf_param(pv)
    if name != "X-NAME" or list(back.keys()) != ["X-P"]:
        return False
    # splitting is a function of the line text alone: editing the parameters it returned (as callers do
    # with parsed properties) must not change what an equal line splits into afterwards
    snap = (name, list(back.items()), value)
    back["X-EDITED"] = "1"
    del back["X-P"]
    name2, back2, value2 = Contentline(str(line)).parts(text=text_kind)
    if (name2, list(back2.items()), value2) != snap:
        return False
    back = back2
    if kf_param(pv):
        return True      # known finding C08-K1: parameter (and then value) text may be altered, the structure is not
    if not kf_param(pv) and '"' not in pv and not any(ord(ch) < 32 for ch in pv):
        if back["X-P"] != pv:
            return False
    if text_kind:
        return str(vText.from_ical(value)) == norm(val)
    if kf_nontext_value(val):
        return True
    return value == val


def h_inject(kind: int, pq: int, vn: int, v0: int, v1: int, v2: int, v3: int) -> bool:
    """
    Whatever delimiter characters the parameter value and the value contain, reading the serialised
    component back gives exactly the intended structure (or the property alone is dropped, or
    serialisation is refused): never an additional or differently named component, property or
    parameter.

    pre: 0 <= kind < 4 and pinned("kind", kind)
    pre: 0 <= pq <= 4 and pinned("pq", pq)
    pre: 0 <= vn <= INJ_MAX
    pre: 0 <= v0 < len(INJ) and 0 <= v1 < len(INJ) and 0 <= v2 < len(INJ) and 0 <= v3 < len(INJ)
    post: _
    """
    kind = KINDS[pin("kind", kind)]
    pv = ['"', 'a"', '"a', "a", ";b=c"][pin("pq", pq)]
    val = _pick(INJ, vn, v0, v1, v2, v3)
    ev = Event()
    ev.add("uid", "u1")
    ev.add("x-name", _wrap(kind, val), parameters={"X-P": pv})
    cal = Calendar()
    cal.add_component(ev)
    try:
        ical = cal.to_ical()
    except AssertionError:
        return False     # no raw line break is involved here: nothing may be refused
    try:
        back = Calendar.from_ical(ical)
    except ValueError:
        return False     # a VEVENT isolates the offending line; the calendar itself must parse
    if back.name != "VCALENDAR" or len(back) != 0 or len(back.subcomponents) != 1:
        return False
    e2 = back.subcomponents[0]
    if e2.name != "VEVENT" or e2.subcomponents:
        return False
    keys = sorted(e2.keys())
    if keys == ["UID"]:
        return len(e2.errors) == 1 and str(e2["UID"]) == "u1"    # the property alone was rejected
    if keys != ["UID", "X-NAME"] or str(e2["UID"]) != "u1" or e2.errors:
        return False
    prop = e2["X-NAME"]
    if isinstance(prop, list):
        return False
    return list(prop.params.keys()) == ["X-P"]
