"""C04 (CrossHair part) - parsing is total: a result or ValueError; VEVENT isolates bad lines.

Real code executed: Component.from_ical error routing (ignore_exceptions / errors), every value
decoder reached by the pools, vPeriod.__init__, TZP.timezone / ZONEINFO.timezone / PYTZ.timezone,
tzp.cache_timezone_component, Timezone.to_tz / get_transitions, to_ical and walk of the result.
"""
from icalendar.cal import Component
from vcheck.hcommon import pin, pinned

BAD = [
    "DTSTART:2020", "DTSTART:20201301T000000", "DTSTART;VALUE=DATE:20200230", "DTEND:20200101T250000", "DTSTART:20200101T000000X",
    "DURATION:PT", "DURATION:1D", "DURATION:P99999999999W", "DURATION:-P999999999DT86399S9", "PRIORITY:high", "SEQUENCE:1.5", "GEO:1", "GEO:a;b", "GEO:1;2;3",
    "RRULE:FREQ=NOPE", "RRULE:FREQ=DAILY;COUNT=x", "RRULE:FREQ=DAILY;BYDAY=XX", "RRULE:FREQ=DAILY;UNTIL=2020", "RRULE:FREQ=DAILY;BYMONTH=L",
    "TZOFFSETTO:+2500", "TZOFFSETFROM:0100x", "TZOFFSETTO:+01", "EXDATE:20200101T000000,2020", "RDATE;VALUE=PERIOD:20200101T000000Z",
    "RDATE;VALUE=PERIOD:20200101T000000Z/20200102", "FREEBUSY:19980415/19980415T170000Z", "FREEBUSY:19980415T133000/19980415T170000Z",
    "FREEBUSY:19980415T170000Z/19980415T133000Z", "FREEBUSY:99991231T235959Z/PT1H", "RDATE;VALUE=PERIOD:99991231T235959/PT1H",
    "DTSTART;TZID=Europe/Berlin,Europe/Paris:20200101T100000", "EXDATE;TZID=\"a\",\"b\":20200101T100000", "DTSTART;TZID=Europe:20200101T000000",
    "DTSTART;TZID=../../etc/passwd:20200101T000000", "DTSTART;TZID=:20200101T000000", "DTSTART;TZID=/:20200101T000000", "DUE;TZID=Europe/Berlin:00010101T000000",
    "RECURRENCE-ID;TZID=America/New_York:99991231T235959", "ATTACH;VALUE=BINARY;ENCODING=BASE64:@@@", "TRIGGER:20200101", "TRIGGER;VALUE=DATE-TIME:x",
    "COMPLETED:20200101T000000+0100", ":novalue", "NAME WITH SPACE:v", "X;P:novalue", "X;=v:1", "X;P=\"unterminated:1", "X;P=a\"b:1", "ACKNOWLEDGED:soon",
    "REPEAT:many", "X-MOZ-LASTACK:never", "DTSTAMP:20200101", "CATEGORIES;VALUE=", "BEGIN", "END", "BEGIN:", "END:VEVENT:", "﻿SUMMARY:x", "SUMMARY\tx",
    "DESCRIPTION:cut off here" + chr(92), "DTEND:20240102T11" + chr(92), "ATTENDEE;CN=\"Trunc" + chr(92), "X" + chr(92), chr(92), "X:" + chr(92) + chr(92) + chr(92),
]
GOOD = ["UID:u1", "SUMMARY:keep\\, me", "DTSTART;TZID=Europe/Vienna:20200101T100000"]
ALARM = ["BEGIN:VALARM", "ACTION:DISPLAY", "TRIGGER:-PT5M", "END:VALARM"]


def _c(x, lo, hi):
    for c in range(lo, hi + 1):
        if x == c:
            return c
    return hi


def tree(c):
    props = []
    for k in sorted(c.keys()):
        vals = c[k] if isinstance(c[k], list) else [c[k]]
        for v in vals:
            params = getattr(v, "params", None)
            enc = v.to_ical() if hasattr(v, "to_ical") else v
            # the decoded text too: two different texts can have the same encoded form (backslash-N and LF)
            props.append((k, type(v).__name__, sorted(params.items()) if params else [], enc, v if isinstance(v, str) else None))
    return (c.name, props, [tree(s) for s in c.subcomponents])


def _use(pytz_provider):
    from icalendar.timezone import tzp
    if pytz_provider:
        tzp.use_pytz()
    else:
        tzp.use_zoneinfo()


def _exercise(comps):
    """serialise and walk whatever was returned: only ValueError may come out"""
    for c in comps:
        try:
            c.to_ical()
        except ValueError:
            pass
        for sub in c.walk():
            sub.name
        try:
            c.to_ical(sorted=False)
        except ValueError:
            pass


def h_isolation(i: int, pos: int, pytz_provider: bool) -> bool:
    """
    A line from the pool of malformed / hostile lines at a symbolic position among good lines and
    before or after a VALARM: in a VTODO (strict) the parse fails with ValueError exactly when the
    line is unparsable; in a VEVENT (lenient) the line alone is dropped, recorded once in `errors`,
    and every other property and the subcomponent are exactly those of the text without the line.
    Nothing but ValueError is ever raised, also while serialising and walking the result.

    pre: 0 <= i < len(BAD) and 0 <= pos <= 4
    pre: pinned("pytz_provider", pytz_provider) and pinned("chunk", i // 10)
    post: _
    """
    from icalendar.timezone import tzp
    pytz_provider = pin("pytz_provider", pytz_provider)
    _use(pytz_provider)
    try:
        bad = BAD[_c(i, 0, len(BAD) - 1)]
        p = _c(pos, 0, 4)
        body = GOOD[:2] + ALARM + GOOD[2:]          # 8 lines; positions 0,1 before / 2..5 alarm / 6 after
        at = [0, 1, 2, 6, 8][p]                      # never inside the VALARM (its lines are strict)
        lines = body[:at] + [bad] + body[at:]
        clean = "BEGIN:VEVENT\r\n" + "\r\n".join(body) + "\r\nEND:VEVENT\r\n"
        strict_text = "BEGIN:VTODO\r\n" + "\r\n".join(lines) + "\r\nEND:VTODO\r\n"
        try:
            todo = Component.from_ical(strict_text)
            rejected = False
            _exercise([todo])
        except ValueError:
            rejected = True
        text = "BEGIN:VEVENT\r\n" + "\r\n".join(lines) + "\r\nEND:VEVENT\r\n"
        try:
            ev = Component.from_ical(text)
        except ValueError:
            # only structural lines (BEGIN/END keywords) may break the component itself
            return bad.upper().startswith(("BEGIN", "END"))
        _exercise([ev])
        if not rejected:
            return True      # the line is acceptable after all; nothing to isolate
        ref = Component.from_ical(clean)
        if len(ev.errors) != 1:
            return False
        return tree(ev) == tree(ref)
    finally:
        tzp.use_zoneinfo()


VTZ_FLAGS = ["tzid0", "tzid2", "no_dtstart", "date_dtstart", "no_from", "no_to", "no_name", "rrule", "bad_rrule", "only_daylight",
             "rdate", "lower_end", "no_sub", "known_id"]


def _vtimezone(flags):
    tzid = "Europe/Vienna" if "known_id" in flags else "Custom/C04-%s" % "-".join(sorted(flags))
    out = ["BEGIN:VTIMEZONE"]
    if "tzid0" not in flags:
        out.append("TZID:" + tzid)
    if "tzid2" in flags:
        out.append("TZID:" + tzid + "-2")
    if "no_sub" not in flags:
        kind = "DAYLIGHT" if "only_daylight" in flags else "STANDARD"
        out.append("BEGIN:" + kind)
        if "no_dtstart" not in flags:
            out.append("DTSTART;VALUE=DATE:19701025" if "date_dtstart" in flags else "DTSTART:19701025T030000")
        if "no_from" not in flags:
            out.append("TZOFFSETFROM:+0200")
        if "no_to" not in flags:
            out.append("TZOFFSETTO:+0100")
        if "no_name" not in flags:
            out.append("TZNAME:CST")
        if "rrule" in flags:
            out.append("RRULE:FREQ=YEARLY;BYMONTH=10;BYDAY=-1SU")
        if "bad_rrule" in flags:
            out.append("RRULE:FREQ=YEARLY;UNTIL=19600101T000000Z")   # no occurrence at all (BYMONTH=13 makes dateutil loop to year 9999: CPU time is outside the claim)
        if "rdate" in flags:
            out.append("RDATE:19711031T030000,19721029T030000")
        out.append("END:" + kind)
    out.append("end:vtimezone" if "lower_end" in flags else "END:VTIMEZONE")
    return out, tzid


def h_vtimezone(f1: int, f2: int, pytz_provider: bool, use_it: bool) -> bool:
    """
    VTIMEZONE definitions with every pair of malformedness flags (missing / duplicated TZID,
    missing DTSTART / offsets / name, DATE-valued DTSTART, RRULE, impossible RRULE, only DAYLIGHT,
    RDATE list, lower-case END, no observance, an id the provider knows), optionally used by an
    event: parse, serialise, walk - a result or ValueError, under both providers.

    pre: 0 <= f1 < len(VTZ_FLAGS) and f1 <= f2 < len(VTZ_FLAGS)
    pre: pinned("pytz_provider", pytz_provider) and pinned("f1", f1)
    post: _
    """
    from icalendar.timezone import tzp
    pytz_provider = pin("pytz_provider", pytz_provider); f1 = pin("f1", f1)
    _use(pytz_provider)
    try:
        flags = {VTZ_FLAGS[f1], VTZ_FLAGS[_c(f2, 0, len(VTZ_FLAGS) - 1)]}
        vt, tzid = _vtimezone(flags)
        lines = ["BEGIN:VCALENDAR", "VERSION:2.0", "PRODID:x"] + vt
        if use_it:
            lines += ["BEGIN:VEVENT", "UID:u", "DTSTART;TZID=%s:20200601T120000" % tzid, "END:VEVENT"]
        lines.append("END:VCALENDAR")
        try:
            comps = Component.from_ical("\r\n".join(lines) + "\r\n", multiple=True)
        except ValueError:
            return True
        _exercise(comps)
        for c in comps:
            for ev in c.walk("VEVENT"):
                try:
                    ev.start
                except ValueError:
                    pass
        return True
    finally:
        tzp.use_zoneinfo()


KINDS = ["BEGIN:VCALENDAR", "BEGIN:VEVENT", "BEGIN:VTIMEZONE", "begin:x-a", "END:VCALENDAR", "END:VEVENT", "END:VTIMEZONE", "end:x-a",
         "SUMMARY:s", "TZID:Custom/C04-sk", "X-COMMENT:c", "END:VTODO", "BEGIN:STANDARD", "END:STANDARD", "DTSTART:19700101T000000"]


def h_skeleton(m: int, k0: int, k1: int, k2: int, k3: int, k4: int, multiple: bool) -> bool:
    """
    Mismatched / unbalanced BEGIN and END lines, properties outside components, VTIMEZONE fragments:
    a result or ValueError, and the result can be serialised and walked.

    pre: 1 <= m <= 5 and pinned("m", m) and pinned("k0", k0)
    pre: 0 <= k0 < 15 and 0 <= k1 < 15 and 0 <= k2 < 15 and 0 <= k3 < 15 and 0 <= k4 < 15
    post: _
    """
    m = pin("m", m); k0 = pin("k0", k0)
    ks = [k0, k1, k2, k3, k4][:m]
    text = "\r\n".join(KINDS[_c(k, 0, 14)] for k in ks) + "\r\n"
    try:
        comps = Component.from_ical(text, multiple=bool(multiple))
    except ValueError:
        return True
    _exercise(comps if multiple else [comps])
    return True
