"""C08 - parameters round-trip with correct quoting, list arity, caseless names.

Kernels on symbolic strings: parser.dquote, q_split, q_join, param_value.  Routes over the
parameter-value alphabet (values realized where the real code hashes / validates them):
Parameters.to_ical / from_ical, Contentline.from_parts / parts, Event.add(..., parameters=) ->
to_ical -> from_ical.
"""
from icalendar import Event
from icalendar.parser import (Contentline, Parameters, dquote, param_value, q_join, q_split)
from icalendar.prop import vText
from vcheck.hcommon import pin, pinned, tier

BS = chr(92)
# the parameter-value alphabet of the statement: , ; : = ' ^ space backslash percent + hex digits of
# the placeholder codes + a letter + a non-ASCII member of QUOTABLE
ALPH = ",;:='^ " + BS + "%2C3Aa’\u00a0\u3000"
N_SYM = tier(3, 4)
NAMES = ["X", "x", "TZID", "tzid", "Tzid", "x-a", "X-A", "CN"]


def _pick(n, c0, c1, c2):
    s = ""
    if n >= 1:
        s += ALPH[c0]
    if n >= 2:
        s += ALPH[c1]
    if n >= 3:
        s += ALPH[c2]
    return s


def kf_param_escape(v):
    """Known finding C08-K1: Contentline.parts / the %XX placeholder mechanism decodes
    backslash-escapes and %2C %3A %3B %5C inside parameter values (and an unquoted value ending in a
    backslash swallows the following delimiter): values containing a backslash or one of the four
    placeholder codes."""
    if "%2C" in v or "%3A" in v or "%3B" in v or "%5C" in v:
        return True
    return BS in v


def _must_quote(v):
    return "," in v or ";" in v or ":" in v


def h_dquote(v: str) -> bool:
    """
    Every value containing a comma, semicolon or colon is emitted inside double quotes; the quoted
    text is the value itself.

    pre: len(v) <= N_SYM and v.isascii()
    pre: '"' not in v
    post: _
    """
    q = dquote(v)
    if _must_quote(v):
        return q == '"' + v + '"'
    return q == v or q == '"' + v + '"'


def h_qsplit(a: str, b: str, c: str, n: int) -> bool:
    """
    q_split(q_join(values)) returns one item per value (arity preserved, a value containing the
    separator stays one item) and each item is the quoted form of its value.

    pre: len(a) <= 2 and len(b) <= 2 and len(c) <= 1 and a.isascii() and b.isascii() and c.isascii()
    pre: '"' not in a and '"' not in b and '"' not in c
    pre: 1 <= n <= 3
    post: _
    """
    vals = [a, b, c][:n]
    joined = q_join(vals)
    parts = q_split(joined)
    if n == 1 and a == "":
        return parts == [] or parts == [""]
    return parts == [dquote(x) for x in vals]


def _same_value(got, want):
    """a one-element list and its element have the same serialisation: treated as the same value"""
    if isinstance(want, list) and len(want) == 1:
        want = want[0]
    if isinstance(got, list) and len(got) == 1:
        got = got[0]
    return got == want


def h_params_roundtrip(k: int, n: int, c0: int, c1: int, c2: int, m: int, d0: int, d1: int,
                       islist: bool, route: int) -> bool:
    """
    Parameters({NAME: value}) -> text -> Parameters: alone (route 0), inside a content line
    (route 1), on a property of a component (route 2).  value is a string or a list of 2 strings.

    pre: 0 <= k < len(NAMES) and pinned("k", k)
    pre: 0 <= n <= 3 and 0 <= m <= 2 and (n <= 1 or not islist)
    pre: 0 <= c0 < len(ALPH) and 0 <= c1 < len(ALPH) and 0 <= c2 < len(ALPH)
    pre: 0 <= d0 < len(ALPH) and 0 <= d1 < len(ALPH)
    pre: 0 <= route <= 2 and pinned("route", route) and pinned("c0", c0) and pinned("islist", islist)
    post: _
    """
    route = pin("route", route); c0 = pin("c0", c0); islist = pin("islist", islist); k = pin("k", k)
    v = _pick(n, c0, c1, c2)
    if kf_param_escape(v):
        return True
    value = v
    if islist:
        w = _pick(m, d0, d1, 0)
        if kf_param_escape(w):
            return True
        value = [v, w]
    name = NAMES[k]
    p = Parameters({name: value})
    if list(p.keys()) != [name.upper()]:
        return False
    text = p.to_ical().decode("utf-8")
    # quoting visible in the emitted text: every element containing , ; : sits inside quotes
    if not text.startswith(name.upper() + "="):
        return False
    for el in (value if islist else [value]):
        if _must_quote(el) and ('"' + el + '"') not in text:
            return False
    if route == 0:
        try:
            back = Parameters.from_ical(text)
        except ValueError:
            return False
    elif route == 1:
        line = Contentline.from_parts("ATTENDEE", p, vText("mailto:a"))
        nm, back, val = line.parts()
        if nm != "ATTENDEE" or val != "mailto:a":
            return False
    else:
        ev = Event()
        ev.add("attendee", "mailto:a", parameters={name: value})
        ev2 = Event.from_ical(ev.to_ical())
        if ev2.errors or "ATTENDEE" not in ev2 or str(ev2["ATTENDEE"]) != "mailto:a":
            return False
        back = ev2["ATTENDEE"].params
    if list(back.keys()) != [name.upper()]:
        return False
    return _same_value(back[name], value) and _same_value(back[name.lower()], value)


def h_order(k1: int, k2: int, sorted_flag: bool) -> bool:
    """
    Two parameters in both insertion orders: identical bytes with sorting on, insertion order with
    sorting off; parsing returns both names with their values.

    pre: 0 <= k1 < len(NAMES) and 0 <= k2 < len(NAMES)
    post: _
    """
    n1, n2 = NAMES[k1], NAMES[k2]
    if n1.upper() == n2.upper():
        return True
    v1, v2 = "v;1", "w 2"
    a = Parameters()
    a[n1] = v1
    a[n2] = v2
    b = Parameters()
    b[n2] = v2
    b[n1] = v1
    if sorted_flag:
        if a.to_ical() != b.to_ical():
            return False
    else:
        ta = a.to_ical(sorted=False).decode()
        tb = b.to_ical(sorted=False).decode()
        if not (ta.index(n1.upper() + "=") < ta.index(n2.upper() + "=")):
            return False
        if not (tb.index(n2.upper() + "=") < tb.index(n1.upper() + "=")):
            return False
    back = Parameters.from_ical(a.to_ical(sorted=sorted_flag).decode())
    return back == a and back[n1] == v1 and back[n2] == v2
