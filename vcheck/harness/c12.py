"""C12 - VTIMEZONE is interpreted per RFC 5545 onset rules.

Real code executed: Timezone.get_transitions / _extract_offsets (single onsets and RDATE lists),
TimezoneStandard/Daylight typed properties, PYTZ.create_timezone + the resulting pytz DstTzInfo
(utcoffset / tzname / dst for an instant), Component.from_ical END:VTIMEZONE caching and
TZP.timezone lookups.
"""
from datetime import datetime, timedelta

from icalendar import Timezone, TimezoneDaylight, TimezoneStandard
from vcheck.hcommon import pin, pinned, tier

HMAX = tier(1, 2)
FMAX = tier(1, 2)
JMIN = tier(0, -1)

H = 3600


def _c(x, lo, hi):
    for c in range(lo, hi + 1):
        if x == c:
            return c
    return hi


def _obs(kind, day, hour, off_from, off_to, name):
    sub = TimezoneStandard() if kind == 0 else TimezoneDaylight()
    sub.DTSTART = datetime(2020, 1, day, hour)
    sub.TZOFFSETFROM = timedelta(hours=off_from)
    sub.TZOFFSETTO = timedelta(hours=off_to)
    if name is not None:
        sub.add("TZNAME", name)
    return sub


def _expected_at(spec, u):
    """(offset_to, name, kind) of the observance with the latest UTC onset <= u (hours), or None"""
    best = None
    for k, d, h, f, t, nm in spec:
        onset = (d - 1) * 24 + h - f
        if onset <= u and (best is None or onset > best[0]):
            best = (onset, t, nm, k)
    return best


def h_transitions(n: int, k1: int, h1: int, f1: int, j1: int, k2: int, h2: int, f2: int, j2: int,
                  k3: int, h3: int, f3: int, j3: int, named: bool) -> bool:
    """
    1-3 single-onset observances on 2020-01-03 (local hour h, TZOFFSETFROM f, TZOFFSETTO f+j hours):
    get_transitions() returns the onsets as local DTSTART - TZOFFSETFROM, sorted by that UTC time, each
    with its TZOFFSETTO, TZNAME and a zero DST offset for STANDARD; the pytz time zone built from it
    reports, one second before / at / one second after every onset (from the first onset on), the
    TZOFFSETTO and TZNAME of the observance with the latest onset not after that instant, and zero DST
    for STANDARD.

    pre: 1 <= n <= 3 and pinned("n", n)
    pre: 0 <= k1 <= 1 and 0 <= k2 <= 1 and 0 <= k3 <= 1 and pinned("k1", k1)
    pre: 0 <= h1 <= HMAX and 0 <= h2 <= HMAX and 0 <= h3 <= HMAX and pinned("h1", h1)
    pre: -FMAX <= f1 <= FMAX and -FMAX <= f2 <= FMAX and -FMAX <= f3 <= FMAX and pinned("f1", f1)
    pre: JMIN <= j1 <= 1 and JMIN <= j2 <= 1 and JMIN <= j3 <= 1
    pre: n < 3 or (h3 <= 1 and -1 <= f3 <= 1 and h2 <= 1 and -1 <= f2 <= 1 and j2 == 0 and j3 >= 0 and j1 == 0)
    pre: pinned("named", named)
    post: _
    """
    import pytz
    from icalendar.timezone.pytz import PYTZ
    n = pin("n", n); k1 = pin("k1", k1); f1 = pin("f1", f1); h1 = pin("h1", h1); named = pin("named", named)
    raw = [(k1, h1, f1, j1, "A"), (k2, h2, f2, j2, "B"), (k3, h3, f3, j3, "C")][:n]
    spec = []
    tz = Timezone()
    tz.add("TZID", "X/Custom")
    has_std = False
    for k, h, f, j, nm in raw:
        k = _c(k, 0, 1); h = _c(h, 0, 2); f = _c(f, -2, 2); j = _c(j, -1, 1)
        spec.append((k, 3, h, f, f + j, nm))
        tz.add_component(_obs(k, 3, h, f, f + j, nm if named else None))
        has_std = has_std or k == 0
    if not has_std:
        return True     # the DST delta needs a STANDARD observance (outside the statement)
    times, info = tz.get_transitions()
    if len(times) != n or len(info) != n:
        return False
    base = datetime(2020, 1, 1)
    got = []
    for tt, (osto, dst, name) in zip(times, info):
        if (tt - base) % timedelta(hours=1) != timedelta(0):
            return False
        got.append(((tt - base) // timedelta(hours=1), osto // timedelta(hours=1), name, dst))
    for i in range(n - 1):
        if got[i][0] > got[i + 1][0]:
            return False
    rest = [((d - 1) * 24 + h - f, t, nm, k) for k, d, h, f, t, nm in spec]
    for onset, to, name, dst in got:
        hit = None
        for e in rest:
            if e[0] == onset and e[1] == to and (not named or e[2] == name):
                hit = e
                break
        if hit is None:
            return False
        if hit[3] == 0 and dst != timedelta(0):
            return False
        rest.remove(hit)
    if rest:
        return False
    onsets = sorted(e[0] for e in [((d - 1) * 24 + h - f,) for k, d, h, f, t, nm in spec])
    if len(set(onsets)) != len(onsets):
        return True     # two observances with the same UTC onset: "the latest onset" is not unique
    tzobj = PYTZ().create_timezone(tz)
    first = onsets[0]
    for onset in onsets:
        for delta in (-1, 0, 1):
            u = base + timedelta(hours=onset, seconds=delta)
            if u < base + timedelta(hours=first):
                continue
            exp = _expected_at(spec, onset if delta >= 0 else onset - 1)
            # (one second before an onset the previous observance applies: onsets are whole hours)
            local = pytz.utc.localize(u).astimezone(tzobj)
            if local.utcoffset() != timedelta(hours=exp[1]):
                return False
            if named and local.tzname() != exp[2]:
                return False
            if exp[3] == 0 and local.dst() != timedelta(0):
                return False
    return True


def _use_provider(pytz_provider):
    from icalendar.timezone import tzp
    if pytz_provider:
        tzp.use_pytz()
    else:
        tzp.use_zoneinfo()


_CAL = """BEGIN:VCALENDAR
VERSION:2.0
PRODID:x
%s
END:VCALENDAR
"""
_VTZ = """BEGIN:VTIMEZONE
TZID:%s
BEGIN:STANDARD
DTSTART:19700101T000000
TZOFFSETFROM:+0%d00
TZOFFSETTO:+0%d00
TZNAME:S%d
END:STANDARD
END:VTIMEZONE"""
_EV = """BEGIN:VEVENT
UID:u
DTSTART;TZID=%s:20200601T120000
END:VEVENT"""


def h_cache(pytz_provider: bool, id1: int, off1: int, id2: int, off2: int, third: bool, reset: bool) -> bool:
    """
    Calendars that define custom TZIDs are parsed one after the other in one process: the DTSTART
    of each calendar gets the offset of the VTIMEZONE contained in the SAME calendar.
    (Known findings C12-K1 / C12-K2 are outside this condition: an earlier calendar defining the same
    TZID differently, and a VTIMEZONE standing after the event that uses it.)  With reset=True the
    provider is selected again between the calendars (TZP.use_* documents a fresh cache): then even the
    SAME custom TZID with a different definition must get its own calendar's offsets.

    pre: 0 <= id1 <= 1 and 0 <= id2 <= 1
    pre: 1 <= off1 <= 3 and 1 <= off2 <= 3
    pre: id1 != id2 or off1 == off2 or reset
    pre: pinned("pytz_provider", pytz_provider) and pinned("third", third)
    post: _
    """
    from icalendar import Calendar
    from icalendar.timezone import tzp
    pytz_provider = pin("pytz_provider", pytz_provider); third = pin("third", third)
    _use_provider(pytz_provider)
    try:
        ids = ["Custom/Alpha", "/custom/Beta"]
        seq = [(ids[_c(id1, 0, 1)], _c(off1, 1, 3)), (ids[_c(id2, 0, 1)], _c(off2, 1, 3))]
        if third and not (reset and seq[0][0] == seq[1][0] and seq[0][1] != seq[1][1]):
            seq.append(seq[0])
        for n_, (tzid, off) in enumerate(seq):
            if reset and n_ > 0:
                _use_provider(pytz_provider)
            text = _CAL % (_VTZ % (tzid, off, off, off) + "\n" + _EV % tzid)
            cal = Calendar.from_ical(text)
            dt = cal.events[0].start
            if dt.utcoffset() != timedelta(hours=off):
                return False
            if dt.replace(tzinfo=None) != datetime(2020, 6, 1, 12):
                return False
            if cal.events[0]["DTSTART"].params.get("TZID") != tzid:
                return False
        return True
    finally:
        tzp.use_zoneinfo()
