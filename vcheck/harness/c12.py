"""C12 - VTIMEZONE is interpreted per RFC 5545 onset rules.

Real code executed: Timezone.get_transitions / _extract_offsets (single onsets and RDATE lists),
TimezoneStandard/Daylight typed properties, PYTZ.create_timezone + the resulting pytz DstTzInfo
(utcoffset / tzname / dst for an instant), Component.from_ical END:VTIMEZONE caching and
TZP.timezone lookups.
"""
from datetime import datetime, timedelta

from icalendar import Timezone, TimezoneDaylight, TimezoneStandard
from vcheck.hcommon import pin, pinned

H = 3600


def _c(x, lo, hi):
    for c in range(lo, hi + 1):
        if x == c:
            return c
    return hi


def _obs(kind, day, hour, off_from, off_to, name):
    sub = TimezoneStandard() if kind == 0 else TimezoneDaylight()
    sub.DTSTART = datetime(2020, 1, day, hour)
    sub.TZOFFSETFROM = timedelta(hours=off_from)
    sub.TZOFFSETTO = timedelta(hours=off_to)
    if name is not None:
        sub.add("TZNAME", name)
    return sub


def h_transitions(n: int, k1: int, d1: int, h1: int, f1: int, t1: int, k2: int, d2: int, h2: int, f2: int,
                  t2: int, k3: int, d3: int, h3: int, f3: int, t3: int) -> bool:
    """
    get_transitions(): the UTC onset of every observance is local DTSTART - TZOFFSETFROM, the list is
    sorted by that UTC onset, entry i carries TZOFFSETTO, the TZNAME, and a zero DST offset for STANDARD.

    pre: 1 <= n <= 3 and pinned("n", n)
    pre: 0 <= k1 <= 1 and 0 <= k2 <= 1 and 0 <= k3 <= 1
    pre: 2 <= d1 <= 4 and 2 <= d2 <= 4 and 2 <= d3 <= 4
    pre: 0 <= h1 <= 23 and 0 <= h2 <= 23 and 0 <= h3 <= 23
    pre: -12 <= f1 <= 14 and -12 <= t1 <= 14 and -12 <= f2 <= 14 and -12 <= t2 <= 14 and -12 <= f3 <= 14 and -12 <= t3 <= 14
    pre: pinned("k1", k1)
    post: _
    """
    n = pin("n", n)
    k1 = pin("k1", k1)
    spec = [(k1, d1, h1, f1, t1, "A"), (k2, d2, h2, f2, t2, "B"), (k3, d3, h3, f3, t3, "C")][:n]
    tz = Timezone()
    tz.add("TZID", "X/Custom")
    has_std = False
    exp = []
    for k, d, h, f, t, nm in spec:
        tz.add_component(_obs(k, d, h, f, t, nm))
        has_std = has_std or k == 0
        # UTC onset in hours since 2020-01-01T00
        exp.append(((d - 1) * 24 + h - f, t, nm, k))
    if not has_std:
        return True     # DST delta needs a standard observance (outside the statement)
    times, info = tz.get_transitions()
    if len(times) != n or len(info) != n:
        return False
    base = datetime(2020, 1, 1)
    got = []
    for tt, (osto, dst, name) in zip(times, info):
        got.append(((tt - base) // timedelta(hours=1), osto // timedelta(hours=1), name, dst))
        if (tt - base) % timedelta(hours=1) != timedelta(0):
            return False
    # sorted by UTC onset
    for i in range(n - 1):
        if got[i][0] > got[i + 1][0]:
            return False
    # same multiset of (onset, offset_to, name); STANDARD => dst 0
    rest = list(exp)
    for onset, to, name, dst in got:
        hit = None
        for e in rest:
            if e[0] == onset and e[1] == to and e[2] == name:
                hit = e
                break
        if hit is None:
            return False
        if hit[3] == 0 and dst != timedelta(0):
            return False
        rest.remove(hit)
    return rest == []
