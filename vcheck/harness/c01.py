"""C01 - parse -> serialise -> parse of any accepted calendar is stable and lossless.

Real code executed: Component.from_ical (line loop, BEGIN/END stack, value class by name, TZID
routing, FREEBUSY splitting, error routing), Contentlines.from_ical / to_ical, Contentline.parts /
from_parts, every value codec reached by the pools, Component.to_ical / property_items.
Whole-file inputs are structured: a symbolic line-kind vector for nesting, and one symbolic
property line (typed value from a pool, or a raw text over the delimiter alphabet) inside it.
"""
from icalendar import Calendar, Event
from icalendar.cal import Component
from vcheck.hcommon import pin, pinned, tier

BS = chr(92)
ALPH = BS + ";:,\"%2C= \taN"
N_RAW = tier(2, 3)
N_GOOD = tier(10, 50)


def _c(x, lo, hi):
    for c in range(lo, hi + 1):
        if x == c:
            return c
    return hi


def tree(c):
    """names, parameters and typed values of a component tree, in order"""
    props = []
    for k in sorted(c.keys()):   # the order of distinct names is not part of the tree; repeats keep their order
        vals = c[k] if isinstance(c[k], list) else [c[k]]
        for v in vals:
            params = getattr(v, "params", None)
            enc = v.to_ical() if hasattr(v, "to_ical") else v
            # the decoded text too (after the documented normalisations backslash-N -> LF, CRLF -> LF,
            # which serialisation applies to a literal backslash-N)
            txt = v.replace(BS + "N", "\n").replace("\r\n", "\n") if isinstance(v, str) else None
            props.append((k, type(v).__name__, sorted(params.items()) if params else [], enc, txt))
    return (c.name, props, [tree(s) for s in c.subcomponents])


def stable(text, multiple=False):
    """the C01 statement on one input text; None if the input is not accepted"""
    try:
        t1 = Component.from_ical(text, multiple=multiple)
    except ValueError:
        return None
    comps1 = t1 if multiple else [t1]
    for c1 in comps1:
        s1 = c1.to_ical()
        c2 = Component.from_ical(s1)
        if tree(c2) != tree(c1):
            return False
        if c2.to_ical() != s1:
            return False
    return True


# typed property lines: (line, python check on the parsed property or None)
TYPED = [
    "DTSTART;VALUE=DATE:00010101", "DTSTART;VALUE=DATE:07530421", "DTSTART;VALUE=DATE:99991231",
    "DTSTART:07530421T120000", "DTSTART:00010101T000000Z", "DTSTART:99991231T235959Z",
    "DTSTART;TZID=Europe/Vienna:20200329T023000", "DTEND;TZID=America/New_York:09990101T000000",
    "DURATION:P0D", "DURATION:-PT0S", "DURATION:+P1W", "DURATION:PT1H0M5S", "DURATION:P15DT5H0M20S",
    "TRIGGER:-PT15M", "TRIGGER;VALUE=DATE-TIME:19980101T050000Z", "TRIGGER;RELATED=END:PT5M",
    "PRIORITY:0", "PRIORITY:+5", "SEQUENCE:-0", "PERCENT-COMPLETE:007",
    "GEO:37.386013;-122.082932", "GEO:0;0", "GEO:-0.0;1e2",
    "RRULE:FREQ=YEARLY;BYMONTH=11;BYDAY=1SU;", "RRULE:freq=daily;count=10", "RRULE:FREQ=WEEKLY;UNTIL=07530421;WKST=SU",
    "EXDATE:19960402T010000Z,19960403T010000Z", "EXDATE;VALUE=DATE:07530421,20200101", "RDATE;VALUE=PERIOD:19960403T020000Z/19960403T040000Z,19960404T010000Z/PT3H",
    "FREEBUSY;FBTYPE=BUSY:19980415T133000Z/19980415T170000Z,19980416T133000Z/PT1H", "freebusy:19980415T133000Z/PT5H",
    "TZOFFSETFROM:-0500", "TZOFFSETTO:+013000", "TZOFFSETTO:+0000",
    "ATTACH;ENCODING=BASE64;VALUE=BINARY:TWFu", "ATTACH:http://example.com/a%2Cb;c",
    "ATTENDEE;CN=\"Doe, John\";ROLE=REQ-PARTICIPANT:mailto:john@example.com", "ORGANIZER;SENT-BY=\"mailto:a@b\":MAILTO:x@y",
    "CATEGORIES:A,B\\,C,D\\;E", "CATEGORIES;LANGUAGE=en:", "RESOURCES:EASEL,PROJECTOR", "X-WR-CALNAME;VALUE=TEXT:a\\nb", "DESCRIPTION:line1\\Nline2\\\\N", "SUMMARY:a\\;b\\,c\\\\d\\:e",
    "dtstart;value=date:20200101", "Summary;Language=en:x", "X-unknown;X-P=1,2,\"3;4\":v", "REQUEST-STATUS:2.0;Success",
    "RECURRENCE-ID;RANGE=THISANDFUTURE:19960120T120000Z", "COMPLETED:19960401T150000Z", "CLASS:", "DTSTAMP:20200101T000000",
]
# what the TEXT-valued pool lines denote (RFC 5545 3.3.11: backslash-n and backslash-N are newlines)
EXACT_TEXT = {
    "X-WR-CALNAME;VALUE=TEXT:a\\nb": "a\nb",
    "DESCRIPTION:line1\\Nline2\\\\N": "line1\nline2" + BS + "N",
    "SUMMARY:a\\;b\\,c\\\\d\\:e": "a;b,c" + BS + "d:e",
    "Summary;Language=en:x": "x",
    "REQUEST-STATUS:2.0;Success": "2.0;Success",
    "CLASS:": "",
}
assert all(k in TYPED for k in EXACT_TEXT), [k for k in EXACT_TEXT if k not in TYPED]
# lines that must be rejected (not accepted => nothing to check) or dropped in a VEVENT
BROKEN = ["DTSTART:2020", "DURATION:P", "PRIORITY:high", "GEO:1", "RRULE:FREQ=NOPE", "TZOFFSETTO:+2500", "DTSTART;TZID=:20200101T000000",
          ":novalue", "NAME WITH SPACE:v", "X;P:novalue", "X;=v:1", "DTSTART;VALUE=DATE:20200230"]


def _wrap(lines, container):
    if container == 0:
        return "BEGIN:VEVENT\r\n" + "\r\n".join(lines) + "\r\nEND:VEVENT\r\n"
    if container == 1:
        return "BEGIN:VTODO\r\n" + "\r\n".join(lines) + "\r\nEND:VTODO\r\n"
    if container == 2:
        return "BEGIN:VCALENDAR\r\nBEGIN:VTIMEZONE\r\nTZID:X\r\nBEGIN:STANDARD\r\n" + "\r\n".join(lines) + "\r\nEND:STANDARD\r\nEND:VTIMEZONE\r\nEND:VCALENDAR\r\n"
    return "BEGIN:X-THING\r\n" + "\r\n".join(lines) + "\r\nEND:X-THING\r\n"


def h_typed(i: int, j: int, container: int, second: bool) -> bool:
    """
    One or two typed property lines from the pool (boundary dates below year 1000, signed zero
    durations, list values, quoted parameters, lower-case names ...) inside a VEVENT (lenient), a
    VTODO (strict), a nested STANDARD, or an unknown component.

    pre: 0 <= i < len(TYPED) and 0 <= j < len(TYPED) and 0 <= container <= 3
    pre: pinned("container", container) and pinned("second", second)
    post: _
    """
    container = pin("container", container); second = pin("second", second)
    lines = [TYPED[_c(i, 0, len(TYPED) - 1)]]
    if second:
        lines.append(TYPED[_c(j, 0, len(TYPED) - 1)])
    text = _wrap(lines, container)
    r = stable(text)
    if container == 2:
        # inside a STANDARD observance most pool lines make the VTIMEZONE itself unusable and the
        # whole input is legitimately rejected
        return r is None or r is True
    if r is not True:
        return False     # every pool line is well-formed RFC 5545 (or accepted leniently): it must be accepted
    comp = Component.from_ical(text)
    names = set(ln.split(":")[0].split(";")[0].upper() for ln in lines)
    if comp.errors or sorted(comp.keys()) != sorted(names):
        return False
    # the first parse recovers exactly what a well-formed TEXT denotes
    for ln in lines:
        if ln in EXACT_TEXT:
            got = comp[ln.split(":")[0].split(";")[0]]
            got = got if isinstance(got, list) else [got]    # the same name twice: a list in input order
            if EXACT_TEXT[ln] not in [str(g) for g in got]:
                return False
    return True


def h_broken(i: int, j: int, container: int) -> bool:
    """
    A malformed line next to a good one: in a lenient component the good one survives and the
    result is stable; elsewhere the input is rejected with ValueError (checked by stable()).

    pre: 0 <= i < len(BROKEN) and 0 <= j < N_GOOD and 0 <= container <= 3
    pre: pinned("container", container)
    post: _
    """
    container = pin("container", container)
    text = _wrap([BROKEN[_c(i, 0, len(BROKEN) - 1)], TYPED[_c(j, 0, len(TYPED) - 1)]], container)
    r = stable(text)
    return r is None or r is True


def _pick(n, c0, c1, c2):
    s = ""
    if n >= 1:
        s += ALPH[c0]
    if n >= 2:
        s += ALPH[c1]
    if n >= 3:
        s += ALPH[c2]
    return s


RAW_NAMES = ["SUMMARY", "X-FOO", "URL", "ATTENDEE", "CATEGORIES", "description"]
NON_TEXT = (2, 3)      # URL (URI), ATTENDEE (CAL-ADDRESS)
_ESCAPABLE = (BS, ",", ";", ":")


def kf_nontext_twice(s):
    """Known finding C01-K1: a non-TEXT value is decoded by Contentline.parts on every parse but
    never escaped on output; it is unstable exactly when, decoded once, it still holds a backslash
    followed by backslash , ; or :"""
    out = []
    i = 0
    while i < len(s):
        if s[i] == BS and i + 1 < len(s) and s[i + 1] in _ESCAPABLE:
            out.append(s[i + 1])
            i += 2
        else:
            out.append(s[i])
            i += 1
    for k in range(len(out) - 1):
        if out[k] == BS and out[k + 1] in _ESCAPABLE:
            return True
    return False


def h_raw(name: int, where: int, n: int, c0: int, c1: int, c2: int) -> bool:
    """
    A raw (not necessarily well-escaped) string over the delimiter alphabet as the value (where=0),
    as an unquoted parameter value (where=1) or as a quoted parameter value (where=2) of a text,
    uri, cal-address or list property.

    pre: 0 <= name < len(RAW_NAMES) and pinned("name", name)
    pre: 0 <= where <= 2 and pinned("where", where)
    pre: 0 <= n <= N_RAW and 0 <= c0 < len(ALPH) and 0 <= c1 < len(ALPH) and 0 <= c2 < len(ALPH)
    post: _
    """
    nm = RAW_NAMES[pin("name", name)]
    where = pin("where", where)
    s = _pick(_c(n, 0, 3), c0, c1, c2)
    if where != 0 and BS in s:
        return True      # known finding C08-K1: backslashes in parameter values
    if where == 0:
        if pin("name", name) in NON_TEXT and kf_nontext_twice(s):
            return True  # known finding C01-K1
        line = nm + ":" + s
    elif where == 1:
        line = nm + ";X-P=" + s + ":v"
    else:
        if '"' in s:
            return True
        line = nm + ";X-P=\"" + s + "\":v"
    r = stable(_wrap([line, "UID:u"], 0))
    return r is None or r is True


KINDS = ["BEGIN:VCALENDAR", "BEGIN:VEVENT", "BEGIN:X-A", "begin:vevent", "END:VCALENDAR", "END:VEVENT", "END:X-A", "end:vevent",
         "SUMMARY:s", "SUMMARY:s", "UID:1", "X-COMMENT:c", "END:VTODO"]


def h_skeleton(m: int, k0: int, k1: int, k2: int, k3: int, k4: int, k5: int, multiple: bool) -> bool:
    """
    A symbolic vector of line kinds (BEGIN/END of known and unknown components in both letter cases,
    mismatched ENDs, a duplicated property, properties outside any component): whenever from_ical
    accepts the text, every returned tree is stable.

    pre: 1 <= m <= 6 and pinned("m", m)
    pre: 0 <= k0 < 13 and 0 <= k1 < 13 and 0 <= k2 < 13 and 0 <= k3 < 13 and 0 <= k4 < 13 and 0 <= k5 < 13
    pre: k0 <= 3
    pre: pinned("k0", k0) and pinned("k1", k1)
    post: _
    """
    m = pin("m", m); k0 = pin("k0", k0); k1 = pin("k1", k1)
    ks = [k0, k1, k2, k3, k4, k5][:m]
    text = "\r\n".join(KINDS[_c(k, 0, 12)] for k in ks) + "\r\n"
    r = stable(text, multiple=bool(multiple))
    return r is None or r is True
