"""C16 - start/end/duration of VEVENT/VTODO obey the RFC rules after any edit history.

One inductive step on the real classes: an arbitrary stored pre-state (DTSTART / DTEND|DUE /
DURATION each absent or present, values of symbolic kind date / floating / UTC) satisfying the
invariant, then ONE mutator with a symbolic argument, then the invariant and the algebraic
identities are asserted.  Histories of any length follow by induction over this state space.
"""
from datetime import date, datetime, timedelta
from typing import Optional

from icalendar import Event, Todo, Journal
from icalendar.cal import IncompleteComponent, InvalidCalendar
from icalendar.prop import vDDDTypes, vDuration
from vcheck.hcommon import mkdt, pin, pinned, stub_utc

DAY = 86400
# value kinds: 0 absent, 1 DATE, 2 floating DATE-TIME, 3 UTC DATE-TIME
from vcheck.consts import C16_OPS as OPS


def _val(kind, day, sec, utc):
    if kind == 1:
        return date(2020, 1, day)
    if kind == 2:
        return mkdt(sec, None, day=day)
    return mkdt(sec, utc, day=day)


def _new(comp):
    return Event() if comp == 0 else Todo()


def _endname(comp):
    return "DTEND" if comp == 0 else "DUE"


def _store(c, comp, sk, sd, ss, ek, ed, es, hasdur, dd, ds, utc):
    """Populate the stored state underneath the setters (as the parser does: add(..., encode=0))."""
    if sk:
        c.add("DTSTART", vDDDTypes(_val(sk, sd, ss, utc)), encode=0)
    if ek:
        c.add(_endname(comp), vDDDTypes(_val(ek, ed, es, utc)), encode=0)
    if hasdur:
        c.add("DURATION", vDuration(timedelta(days=dd, seconds=ds)), encode=0)


def _check_state(c, comp, utc):
    """Invariant + identities of the statement on the current stored state. Returns bool."""
    endname = _endname(comp)
    has_end = endname in c
    has_dur = "DURATION" in c
    if has_end and has_dur:
        return False  # exclusivity
    start = c.DTSTART
    end = c.DTEND if comp == 0 else c.DUE
    dur = c.DURATION
    # states the RFC forbids MUST be reported: a time-of-day DURATION on a DATE start, and a
    # DATE / DATE-TIME mismatch between start and end
    bad_dur = start is not None and not isinstance(start, datetime) and dur is not None and dur.seconds != 0
    mismatch = start is not None and end is not None and isinstance(start, datetime) != isinstance(end, datetime)
    if bad_dur or mismatch:
        for attr in (0, 1, 2):
            try:
                if attr == 0:
                    c.start
                elif attr == 1:
                    c.end
                else:
                    c.duration
                return False
            except InvalidCalendar:
                pass
        return True
    # forbidden / incomplete states must be reported by the documented errors only
    try:
        s = c.start
    except IncompleteComponent:
        s = None
        if start is not None:
            return False
    except InvalidCalendar:
        # date start with a time-of-day DURATION, or date/date-time mismatch
        bad_dur = start is not None and not isinstance(start, datetime) and dur is not None and dur.seconds != 0
        mismatch = start is not None and end is not None and isinstance(start, datetime) != isinstance(end, datetime)
        return bad_dur or mismatch
    if start is None:
        if s is not None:
            return False
        try:
            c.end
        except IncompleteComponent:
            if end is not None:
                return False  # an explicit end without start is still an end
            return True
        # end without start: allowed only when an explicit end property exists
        return end is not None and c.end == end
    if s != start:
        return False
    e = c.end
    if has_dur:
        if e != start + dur:
            return False
    elif has_end:
        if e != end:
            return False
    else:
        if isinstance(start, datetime):
            if e != start:
                return False
        elif e != start + timedelta(days=1):
            return False
    return c.duration == e - s


def h_step(comp: int, op: int, sk: int, sd: int, ss: int, ek: int, ed: int, es: int, hasdur: bool,
           dd: int, ds: int, ak: int, ad: int, asec: int, add: int, ads: int) -> bool:
    """
    pre: 0 <= comp <= 1 and pinned("comp", comp)
    pre: 0 <= op < len(OPS) and pinned("op", op)
    pre: 0 <= sk <= 3 and 1 <= sd <= 3 and 0 <= ss < DAY
    pre: 0 <= ek <= 3 and 1 <= ed <= 3 and 0 <= es < DAY
    pre: 0 <= dd <= 2 and 0 <= ds < DAY
    pre: 1 <= ak <= 3 and 1 <= ad <= 3 and 0 <= asec < DAY
    pre: 0 <= add <= 2 and 0 <= ads < DAY
    pre: not (ek != 0 and hasdur)
    pre: not (sk in (2, 3) and ek in (2, 3) and sk != ek)
    pre: not (sk in (2, 3) and ak in (2, 3) and sk != ak) and not (ek in (2, 3) and ak in (2, 3) and ek != ak)
    post: _
    """
    return _step_impl(comp, op, sk, sd, ss, ek, ed, es, hasdur, dd, ds, ak, ad, asec, add, ads)


def _step_impl(comp, op, sk, sd, ss, ek, ed, es, hasdur, dd, ds, ak, ad, asec, add, ads):
    """body of h_step without a contract of its own (h_step_pool calls it: CrossHair enforces the
    contracts of called functions, and the reachability twin negates every postcondition of the module)"""
    utc = stub_utc()
    c = _new(comp)
    _store(c, comp, sk, sd, ss, ek, ed, es, hasdur, dd, ds, utc)
    arg = _val(ak, ad, asec, utc)
    return _apply_and_check(c, comp, op, arg, add, ads, utc)


def _apply_and_check(c, comp, op, arg, add, ads, utc):
    """one mutator on the stored state, then the invariant and identities"""
    name = OPS[op]
    endname = _endname(comp)
    if name == "set_start":
        c.start = arg
    elif name == "set_end":
        c.end = arg
    elif name == "set_DTSTART":
        c.DTSTART = arg
    elif name == "set_END":
        if comp == 0:
            c.DTEND = arg
        else:
            c.DUE = arg
    elif name == "set_DURATION":
        c.DURATION = timedelta(days=add, seconds=ads)
    elif name == "del_DTSTART":
        del c.DTSTART
    elif name == "del_END":
        if comp == 0:
            del c.DTEND
        else:
            del c.DUE
    elif name == "del_DURATION":
        del c.DURATION
    elif name == "start_None":
        c.start = None
    elif name == "end_None":
        c.end = None
    elif name == "DURATION_None":
        c.DURATION = None
    # the mutator did what its name says
    if name in ("set_start", "set_DTSTART") and c.DTSTART != arg:
        return False
    if name in ("set_end", "set_END") and (c.DTEND if comp == 0 else c.DUE) != arg:
        return False
    if name == "set_DURATION" and c.DURATION != timedelta(days=add, seconds=ads):
        return False
    if name in ("del_DTSTART", "start_None") and "DTSTART" in c:
        return False
    if name in ("del_END", "end_None") and endname in c:
        return False
    if name in ("del_DURATION", "DURATION_None") and "DURATION" in c:
        return False
    return _check_state(c, comp, utc)


def h_forbidden(comp: int, sk: int, sd: int, ss: int, ek: int, ed: int, es: int, dd: int, ds: int) -> bool:
    """
    Stored combinations the RFC forbids (as a parser can produce them): both end and DURATION.
    start/end/duration must raise exactly InvalidCalendar (never another exception, never a value).

    pre: 0 <= comp <= 1
    pre: 0 <= sk <= 3 and 1 <= sd <= 3 and 0 <= ss < DAY
    pre: 1 <= ek <= 3 and 1 <= ed <= 3 and 0 <= es < DAY
    pre: 0 <= dd <= 2 and 0 <= ds < DAY
    post: _
    """
    utc = stub_utc()
    c = _new(comp)
    _store(c, comp, sk, sd, ss, ek, ed, es, True, dd, ds, utc)
    try:
        c.start
        return False
    except InvalidCalendar:
        pass
    try:
        c.end
        return False
    except InvalidCalendar:
        pass
    try:
        c.duration
        return False
    except InvalidCalendar:
        pass
    return True


def h_types(comp: int, which: int, bad: int) -> bool:
    """
    Wrong argument types are rejected with TypeError and leave the component unchanged.

    pre: 0 <= comp <= 1
    pre: 0 <= which <= 4
    pre: 0 <= bad <= 2
    post: _
    """
    c = _new(comp)
    c.start = datetime(2020, 1, 1, 10)
    before = dict(c)
    value = [1, "20200101", timedelta(1)][bad] if which != 4 else [1, "P1D", datetime(2020, 1, 1)][bad]
    try:
        if which == 0:
            c.start = value
        elif which == 1:
            c.end = value
        elif which == 2:
            c.DTSTART = value
        elif which == 3:
            if comp == 0:
                c.DTEND = value
            else:
                c.DUE = value
        else:
            c.DURATION = value
    except TypeError:
        return dict(c) == before
    return False


def h_journal(k: int, d: int, s: int) -> bool:
    """
    pre: 0 <= k <= 3 and 1 <= d <= 3 and 0 <= s < DAY
    post: _
    """
    utc = stub_utc()
    j = Journal()
    if k == 0:
        try:
            j.start
        except IncompleteComponent:
            try:
                j.end
            except IncompleteComponent:
                return j.duration == timedelta(0)
        return False
    v = _val(k, d, s, utc)
    j.start = v
    return j.start == v and j.end == v and j.duration == timedelta(0) and j.DTSTART == v


SEC_POOL = [0, 1, 60, 1440, 3600, 7200, 43200, 86399]
# 1440 s = 24 min, 7200 s = 2 h, 43200 s = 12 h: multiples of "minutes per day" taken for seconds


def _cc(x, n):
    for c in range(n):
        if x == c:
            return c
    return n - 1


def h_step_pool(comp: int, op: int, sk: int, ek: int, hasdur: bool, dd: int, dsi: int, ak: int) -> bool:
    """
    The same inductive step with every value CONCRETE after branching (seconds from a pool of
    boundary values incl. 24 min, 2 h, 12 h; days 0..1): arithmetic that the solver cannot follow
    (float division, modulo on total_seconds()) is then simply executed.

    pre: 0 <= comp <= 1 and pinned("comp", comp)
    pre: 0 <= op < len(OPS) and pinned("op", op)
    pre: 0 <= sk <= 3 and 0 <= ek <= 3 and 1 <= ak <= 3
    pre: 0 <= dd <= 1 and 0 <= dsi < len(SEC_POOL)
    pre: not (ek != 0 and hasdur)
    pre: not (sk in (2, 3) and ek in (2, 3) and sk != ek)
    pre: not (sk in (2, 3) and ak in (2, 3) and sk != ak) and not (ek in (2, 3) and ak in (2, 3) and ek != ak)
    post: _
    """
    comp = pin("comp", comp); op = pin("op", op)
    sk = _cc(sk, 4); ek = _cc(ek, 4); ak = max(1, _cc(ak, 4)); dd = _cc(dd, 2)
    ds = SEC_POOL[_cc(dsi, len(SEC_POOL))]
    return _step_impl(comp, op, sk, 1, 36000, ek, 2, 36000, bool(hasdur), dd, ds, ak, 1, 36000, dd, ds)


# real zoned values across a daylight-saving transition, built at import (C datetimes with a real
# ZoneInfo; CrossHair's traced datetime class is not involved): Europe/Berlin switches on 2024-03-31
from datetime import timezone as _timezone
from zoneinfo import ZoneInfo as _ZoneInfo
_BERLIN = _ZoneInfo("Europe/Berlin")
_ZV = {}
for _d in (1, 2, 3):
    _ZV[(1, _d)] = date(2024, 3, 29 + _d) if _d < 3 else date(2024, 4, 1)
    _base = datetime(2024, 3, 30, 12, 0) + timedelta(days=_d - 1)
    _ZV[(2, _d)] = _base
    _ZV[(3, _d)] = _base.replace(tzinfo=_timezone.utc)
    _ZV[(4, _d)] = _base.replace(tzinfo=_BERLIN)
_ZDUR = [timedelta(0), timedelta(hours=1), timedelta(days=1), timedelta(days=1, hours=1)]


def _naive_aware_mix(a, b):
    return (a == 2 and b in (3, 4)) or (b == 2 and a in (3, 4))


def h_step_zoned(comp: int, op: int, sk: int, ek: int, ed: int, hasdur: bool, di: int, ak: int, ad: int, adi: int) -> bool:
    """
    The inductive step with ZONED values (value kind 4: Europe/Berlin, noon of the day before, the day
    of and the day after the 2024 spring transition) in at least one of the stored start, the stored
    end and the argument, next to date / floating / UTC values: wall-clock arithmetic across the
    transition (end == start + DURATION, duration == end - start as Python defines them).

    pre: 0 <= comp <= 1 and pinned("comp", comp)
    pre: 0 <= op < len(OPS) and pinned("op", op)
    pre: 0 <= sk <= 4 and 0 <= ek <= 4 and 2 <= ed <= 3 and 1 <= ak <= 4 and 1 <= ad <= 2
    pre: 0 <= di < len(_ZDUR) and 0 <= adi < len(_ZDUR)
    pre: sk == 4 or ek == 4 or ak == 4
    pre: not (ek != 0 and hasdur)
    pre: not _naive_aware_mix(sk, ek) and not _naive_aware_mix(sk, ak) and not _naive_aware_mix(ek, ak)
    post: _
    """
    comp = pin("comp", comp); op = pin("op", op)
    sk = _cc(sk, 5); ek = _cc(ek, 5); ak = max(1, _cc(ak, 5))
    ed = 2 if ed == 2 else 3
    ad = 1 if ad == 1 else 2
    c = _new(comp)
    if sk:
        c.add("DTSTART", vDDDTypes(_ZV[(sk, 1)]), encode=0)
    if ek:
        c.add(_endname(comp), vDDDTypes(_ZV[(ek, ed)]), encode=0)
    if hasdur:
        c.add("DURATION", vDuration(_ZDUR[_cc(di, len(_ZDUR))]), encode=0)
    adur = _ZDUR[_cc(adi, len(_ZDUR))] if OPS[op] == "set_DURATION" else timedelta(0)
    return _apply_and_check(c, comp, op, _ZV[(ak, ad)], adur.days, adur.seconds, None)
