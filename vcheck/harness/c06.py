"""C06 (CrossHair part) - the whole foldline / unfold pipeline at toy scale on symbolic strings.

foldline(line, limit) is executed with limit in {2,3,4,5} (the octet arithmetic is relative to
`limit`; the default 75 is decided by Engine S) on fully symbolic short strings, so that every
alignment of a 1-4 octet character, a CR, a space or a tab with the fold point occurs."""
from icalendar.parser import Contentline, Contentlines, foldline, uFOLD
from vcheck.hcommon import PARAMS, pin, pinned, tier

N_MAX = PARAMS.get("nmax") or 4      # characters per string; thorough shards raise it to 5 through the pinned parameter nmax

# 1-octet chars incl. SP/TAB/CR, and the first/last code points of the 2-, 3- and 4-octet classes
WIDE = ["a", " ", "\t", "\r", "\x80", "\u07ff", "\u0800", "\uffff", "\U00010000", "😀"]


def _c(x, n):
    for c in range(n):
        if x == c:
            return c
    return n - 1


def h_fold_unfold(a: int, b: int, c: int, d: int, e: int, n: int, limit: int) -> bool:
    """
    Characters are drawn from 1-, 2-, 3- and 4-octet characters plus CR, SP, TAB: each physical line
    has at most `limit` octets, is valid UTF-8 on its own, continuation lines start with exactly one
    added space, and the unfold regex restores the line exactly.

    pre: 0 <= n <= N_MAX and 3 <= limit <= 7 and pinned("limit", limit) and pinned("a", a)
    pre: 0 <= a < 10 and 0 <= b < 10 and 0 <= c < 10 and 0 <= d < 10 and 0 <= e < 10
    post: _
    """
    limit = pin("limit", limit)
    a = pin("a", a)
    idx = [a, b, c, d, e][:_c(n, 6)]
    line = "".join(WIDE[_c(i, 10)] for i in idx)
    if any(len(ch.encode("utf-8")) > limit - 1 for ch in line):
        return True      # a character wider than limit-1 octets cannot be folded within `limit` at all
    out = foldline(line, limit)
    phys = out.split("\r\n")
    for k, p in enumerate(phys):
        if len(p.encode("utf-8")) > limit:
            return False
        if k > 0 and not p.startswith(" "):
            return False
    if uFOLD.sub("", out) != line:
        return False
    # the bytes of each physical line decode on their own (no character was split)
    raw = out.encode("utf-8").split(b"\r\n")
    try:
        joined = "\r\n".join(x.decode("utf-8") for x in raw)
    except UnicodeDecodeError:
        return False
    return joined == out


CL_NAMES = ["DESCRIPTION:", "X:", "ATTENDEE;CN=é:"]


def h_contentline(a: int, b: int, n: int, nm: int) -> bool:
    """
    Contentline.to_ical / from_ical with the real limit: a value of n repetitions of a 1-4 octet
    character pair after a long, a minimal and a parameterised name (short lines made of 4-octet
    characters exceed 75 octets well below 75 characters).

    pre: 0 <= n <= 80 and pinned("n", n) and 0 <= nm < len(CL_NAMES) and pinned("nm", nm)
    pre: 0 <= a < 10 and 0 <= b < 10
    post: _
    """
    n = pin("n", n)
    text = CL_NAMES[pin("nm", nm)] + (WIDE[_c(a, 10)] + WIDE[_c(b, 10)]) * n
    cl = Contentline(text)
    raw = cl.to_ical()
    for p in raw.split(b"\r\n"):
        if len(p) > 75:
            return False
        try:
            p.decode("utf-8")
        except UnicodeDecodeError:
            return False
    if any(not p.startswith(b" ") for p in raw.split(b"\r\n")[1:]):
        return False
    if Contentline.from_ical(raw) != text:
        return False
    lines = Contentlines([cl, Contentline("X:1")])
    ical = lines.to_ical()
    if not ical.endswith(b"\r\n"):
        return False
    back = Contentlines.from_ical(ical)
    return list(back) == [text, "X:1", ""]


def h_handover(p: int, ch: int, tail: int) -> bool:
    """
    Real limit: an ASCII run of symbolic length p (0..160) followed by a non-ASCII character and a
    tail - the hand-over between the all-ASCII prefix and the per-character octet counting at every
    offset around the 74-character chunk boundaries.

    pre: 0 <= p <= 160 and pinned("chunk", p // 27)
    pre: 4 <= ch < 10 and 0 <= tail <= 2
    post: _
    """
    pp = _c(p, 161)
    special = WIDE[_c(ch, 10)]
    rest = ["", "y" * 80, special * 30][_c(tail, 3)]
    line = "x" * pp + special + rest
    out = foldline(line)
    phys = out.split("\r\n")
    for k, q in enumerate(phys):
        if len(q.encode("utf-8")) > 75:
            return False
        if k > 0 and not q.startswith(" "):
            return False
    return uFOLD.sub("", out) == line
