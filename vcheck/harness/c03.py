"""C03 (CrossHair part) - the enumerated value types: BOOLEAN, weekday, frequency, month, BINARY,
GEO / FLOAT structure.  (DATE, DATE-TIME, TIME, DURATION, PERIOD, UTC-OFFSET, INTEGER are decided by
Engine S, vcheck/smt/c03.py.)"""
import base64

from icalendar.prop import vBinary, vBoolean, vFloat, vFrequency, vGeo, vMonth, vWeekday
from vcheck.hcommon import pin, pinned

DAYS = ["SU", "MO", "TU", "WE", "TH", "FR", "SA"]
FREQS = ["SECONDLY", "MINUTELY", "HOURLY", "DAILY", "WEEKLY", "MONTHLY", "YEARLY"]


def _c(x, n):
    for c in range(n):
        if x == c:
            return c
    return n - 1


def _case(s, mode):
    return [s, s.lower(), s.capitalize()][mode]


def h_boolean(v: bool, mode: int) -> bool:
    """
    pre: 0 <= mode <= 2
    post: _
    """
    v = True if v else False
    text = vBoolean(v).to_ical()
    if text != (b"TRUE" if v else b"FALSE"):
        return False
    t = _case(text.decode(), _c(mode, 3))
    r = vBoolean.from_ical(t)
    if r is not (True if v else False):
        return False
    try:
        vBoolean.from_ical("YES")
    except ValueError:
        return True
    return False


def h_weekday(sign: int, ordinal: int, day: int, mode: int) -> bool:
    """
    weekdaynum = [[plus / minus] ordwk] weekday ; ordwk 1..53

    pre: 0 <= sign <= 2 and 0 <= ordinal <= 53 and 0 <= day < 7 and 0 <= mode <= 1
    pre: pinned("day", day)
    post: _
    """
    day = pin("day", day)
    sg = ["", "+", "-"][_c(sign, 3)]
    o = _c(ordinal, 54)
    if o == 0 and sg:
        return True
    text = sg + (str(o) if o else "") + DAYS[day]
    given = _case(text, _c(mode, 2))
    w = vWeekday.from_ical(given)
    if w.to_ical() != text.encode() or w.weekday != DAYS[day]:
        return False
    want_rel = None if o == 0 else (-o if sg == "-" else o)
    if w.relative != want_rel:
        return False
    back = vWeekday.from_ical(w.to_ical().decode())
    return back == w and back.relative == want_rel and back.weekday == DAYS[day]


def h_weekday_invalid(k: int) -> bool:
    """
    pre: 0 <= k < 6
    post: _
    """
    bad = ["XX", "1", "MON", "+-1MO", "123MO", ""][_c(k, 6)]
    try:
        vWeekday.from_ical(bad)
    except ValueError:
        return True
    return False


def h_frequency(f: int, mode: int) -> bool:
    """
    pre: 0 <= f < 7 and 0 <= mode <= 2
    post: _
    """
    name = FREQS[_c(f, 7)]
    v = vFrequency.from_ical(_case(name, _c(mode, 3)))
    if v.to_ical() != name.encode() or v != name:
        return False
    try:
        vFrequency.from_ical("FORTNIGHTLY")
    except ValueError:
        return vFrequency(name).to_ical() == name.encode()
    return False


def h_month(m: int, leap: bool, fromstr: bool) -> bool:
    """
    pre: 1 <= m <= 13
    post: _
    """
    mm = _c(m, 14)
    text = str(mm) + ("L" if leap else "")
    v = vMonth(text) if (fromstr or leap) else vMonth(mm)
    if v.to_ical() != text.encode() or int(v) != mm or v.leap != bool(leap):
        return False
    back = vMonth.from_ical(v.to_ical().decode())
    return int(back) == mm and back.leap == bool(leap) and back.to_ical() == text.encode()


ALPH = ["", "a", "é", "€", "😀", "\n", "\x00", "AB", "=="]


def h_binary(i: int, j: int) -> bool:
    """
    pre: 0 <= i < 9 and 0 <= j < 9
    post: _
    """
    s = ALPH[_c(i, 9)] + ALPH[_c(j, 9)]
    enc = vBinary(s).to_ical()
    if any(ch not in b"ABCDEFGHIJKLMNOPQRSTUVWXYZabcdefghijklmnopqrstuvwxyz0123456789+/=" for ch in enc):
        return False
    if vBinary.from_ical(enc) != s.encode("utf-8") or vBinary.from_ical(enc.decode()) != s.encode("utf-8"):
        return False
    try:
        vBinary.from_ical("a")   # not base64
    except ValueError:
        return True
    return False


def h_geo_structure(a: int, b: int, sa: bool, sb: bool) -> bool:
    """
    GEO is two SEMICOLON-separated FLOAT values (numeric fidelity of float repr is CPython's and is
    not analysed); values here are k/8 (exact binary fractions).

    pre: 0 <= a <= 8 and 0 <= b <= 8
    post: _
    """
    lat = (_c(a, 9) * 11.125) * (-1 if sa else 1)
    lon = (_c(b, 9) * 22.375) * (-1 if sb else 1)
    g = vGeo((lat, lon))
    text = g.to_ical()
    parts = text.split(";")
    if len(parts) != 2:
        return False
    if vGeo.from_ical(text) != (lat, lon):
        return False
    f = vFloat(lat)
    return vFloat.from_ical(f.to_ical().decode()) == lat
