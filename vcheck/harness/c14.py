"""C14 - alarm times = anchor + TRIGGER + k*DURATION, k = 0..REPEAT (RFC 5545 / RFC 9074).

Real code executed symbolically: Alarms.{add_component,add_alarm,_add,_repeat,times,
_get_*_alarm_times,_alarm_time}, Alarm.{TRIGGER,TRIGGER_RELATED,REPEAT,DURATION,triggers},
Event/Todo.{start,end}, tools.{to_datetime,normalize_pytz,is_date}.

All times are whole seconds inside January 2020; the oracle is the statement's formula over
integers (seconds since 2020-01-01T00:00).
"""
from datetime import date, datetime, timedelta
from typing import Optional

from icalendar import Alarm, Event, Todo
from icalendar.alarms import (Alarms, ComponentEndMissing, ComponentStartMissing,
                              IncompleteAlarmInformation)
from icalendar.cal import IncompleteComponent
from vcheck.hcommon import mkdt, pin, pinned, stub_utc, tier

DAY = 86400
D0 = 10  # the component starts on 10 January
E_MAX = tier(DAY // 2, DAY)


def _abs(x, tz):
    """seconds since 2020-01-01T00:00 -> datetime (January only)."""
    return mkdt(x % DAY, tz, day=1 + x // DAY)


def _mk_component(kind, sk, s, endmode, e, utc):
    """kind 0 Event / 1 Todo; sk 0 none, 1 DATE, 2 floating, 3 UTC; endmode 0 none, 1 DTEND/DUE, 2 DURATION.

    Returns (component, start_seconds or None, end_seconds or None, is_date)."""
    c = Event() if kind == 0 else Todo()
    tz = utc if sk == 3 else None
    S = None
    if sk == 1:
        c.start = date(2020, 1, D0)
        S = (D0 - 1) * DAY
    elif sk in (2, 3):
        c.start = _abs((D0 - 1) * DAY + s, tz)
        S = (D0 - 1) * DAY + s
    E = None
    if endmode == 1:
        if sk == 1:
            c.end = date(2020, 1, D0 + 1 + e // DAY)   # whole days for DATE values
            E = (D0 + e // DAY) * DAY
        else:
            base = S if S is not None else (D0 - 1) * DAY
            c.end = _abs(base + e, tz)
            E = base + e
    elif endmode == 2:
        if sk == 1:
            c.DURATION = timedelta(days=1 + e // DAY)
            E = S + (1 + e // DAY) * DAY
        else:
            c.DURATION = timedelta(seconds=e)
            E = None if S is None else S + e
    else:
        if S is not None:
            E = S + DAY if sk == 1 else S
    return c, S, E


def _expect(anchor, tr, rep, dur, sk, tz, has_dur):
    """expected trigger values for one relative alarm."""
    n = rep if has_dur else 0
    secs = [anchor + tr + k * dur for k in range(n + 1)]
    out = []
    for i, x in enumerate(secs):
        if sk == 1 and tr % DAY == 0 and (i == 0 or (k_whole(dur, i))):
            out.append(date(2020, 1, 1 + x // DAY))
        else:
            out.append(_abs(x, tz))
    return out


def k_whole(dur, i):
    return (dur * i) % DAY == 0


def h_relative(kind: int, sk: int, endmode: int, related: int, s: int, e: int, tr: int, rep: int,
               dur: int, has_dur: bool) -> bool:
    """
    One alarm with a relative TRIGGER (RELATED absent=0, START=1, END=2) on a real Event/Todo.

    pre: 0 <= kind <= 1 and pinned("kind", kind)
    pre: 0 <= sk <= 3 and pinned("sk", sk)
    pre: 0 <= endmode <= 2 and pinned("endmode", endmode)
    pre: 0 <= related <= 2 and pinned("related", related)
    pre: 0 <= s < DAY and 0 <= e < E_MAX
    pre: -2 * DAY <= tr <= 2 * DAY
    pre: 0 <= rep <= 2 and pinned("rep", rep)
    pre: 0 <= dur <= DAY
    post: _
    """
    kind = pin("kind", kind); sk = pin("sk", sk); endmode = pin("endmode", endmode)
    related = pin("related", related); rep = pin("rep", rep)
    utc = stub_utc()
    tz = utc if sk == 3 else None
    c, S, E = _mk_component(kind, sk, s, endmode, e, utc)
    al = Alarm()
    al.TRIGGER = timedelta(seconds=tr)
    if related == 1:
        al.TRIGGER_RELATED = "START"
    elif related == 2:
        al.TRIGGER_RELATED = "END"
    if rep:
        al.REPEAT = rep
    if has_dur:
        al.DURATION = timedelta(seconds=dur)
    c.add_component(al)
    # Alarm.triggers: the relative offsets themselves
    n = rep if has_dur else 0
    offs = tuple(timedelta(seconds=tr + k * dur) for k in range(n + 1))
    trg = al.triggers
    if related == 2:
        if trg.end != offs or trg.start != () or trg.absolute != ():
            return False
    elif trg.start != offs or trg.end != () or trg.absolute != ():
        return False
    anchor = E if related == 2 else S
    try:
        times = c.alarms.times
    except (IncompleteComponent, IncompleteAlarmInformation):
        # the documented incomplete-information errors are legitimate only when start or end
        # information is really missing (Event.alarms reads both start and end)
        return S is None or anchor is None
    if anchor is None:
        return False
    got = [t.trigger for t in times]
    exp = _expect(anchor, tr, rep, dur, sk, tz, has_dur)
    if len(got) != len(exp):
        return False
    for g, x in zip(got, exp):
        if type(g) is not type(x) and not (isinstance(g, datetime) and isinstance(x, datetime)):
            return False
        if g != x:
            return False
    return all(t.alarm is al and t.parent is c for t in times)


def h_absolute(kind: int, sk: int, s: int, a: int, rep: int, dur: int, has_dur: bool) -> bool:
    """
    One alarm with an absolute (UTC) TRIGGER: that instant and its repeats, whatever the
    component's own times are (DATE, floating, UTC start or none).

    pre: 0 <= kind <= 1 and pinned("kind", kind)
    pre: 0 <= sk <= 3 and pinned("sk", sk)
    pre: 0 <= s < DAY
    pre: 0 <= a < 20 * DAY
    pre: 0 <= rep <= 2 and pinned("rep", rep)
    pre: 0 <= dur <= DAY
    post: _
    """
    kind = pin("kind", kind); sk = pin("sk", sk); rep = pin("rep", rep)
    utc = stub_utc()
    c, S, E = _mk_component(kind, sk, s, 0, 0, utc)
    al = Alarm()
    al.TRIGGER = _abs(a, utc)
    if rep:
        al.REPEAT = rep
    if has_dur:
        al.DURATION = timedelta(seconds=dur)
    c.add_component(al)
    n = rep if has_dur else 0
    exp = [_abs(a + k * dur, utc) for k in range(n + 1)]
    if list(al.triggers.absolute) != exp or al.triggers.start != () or al.triggers.end != ():
        return False
    try:
        times = c.alarms.times
    except IncompleteComponent:
        return S is None   # missing start is reported by the documented error
    return [t.trigger for t in times] == exp


def h_no_trigger(kind: int, sk: int, s: int, rep: int, dur: int) -> bool:
    """
    An alarm without TRIGGER contributes nothing (also with REPEAT/DURATION set).

    pre: 0 <= kind <= 1
    pre: 1 <= sk <= 3
    pre: 0 <= s < DAY
    pre: 0 <= rep <= 2
    pre: 0 <= dur <= DAY
    post: _
    """
    utc = stub_utc()
    c, S, E = _mk_component(kind, sk, s, 0, 0, utc)
    al = Alarm()
    if rep:
        al.REPEAT = rep
    if dur:
        al.DURATION = timedelta(seconds=dur)
    c.add_component(al)
    return c.alarms.times == [] and al.triggers == ((), (), ())


def h_pair(kind: int, sk: int, rel: int, s: int, e: int, t1: int, a: int) -> bool:
    """
    One relative alarm (RELATED absent/START/END) and one absolute alarm on the same component:
    the computed times are exactly the two alarms' own times (as a multiset), each attributed to
    its alarm.

    pre: 0 <= kind <= 1 and pinned("kind", kind)
    pre: 2 <= sk <= 3 and pinned("sk", sk)
    pre: 0 <= rel <= 2 and pinned("rel", rel)
    pre: 0 <= s < DAY and 0 <= e < DAY
    pre: -DAY <= t1 <= DAY
    pre: 0 <= a < 20 * DAY
    post: _
    """
    kind = pin("kind", kind); sk = pin("sk", sk); rel = pin("rel", rel)
    utc = stub_utc()
    tz = utc if sk == 3 else None
    c, S, E = _mk_component(kind, sk, s, 1, e, utc)
    al = Alarm()
    al.TRIGGER = timedelta(seconds=t1)
    if rel == 1:
        al.TRIGGER_RELATED = "START"
    elif rel == 2:
        al.TRIGGER_RELATED = "END"
    ab = Alarm()
    ab.TRIGGER = _abs(a, utc)
    c.add_component(ab)
    c.add_component(al)
    times = c.alarms.times
    if len(times) != 2:
        return False
    anchor = E if rel == 2 else S
    mine = [t for t in times if t.alarm is al]
    theirs = [t for t in times if t.alarm is ab]
    if len(mine) != 1 or len(theirs) != 1:
        return False
    return mine[0].trigger == _abs(anchor + t1, tz) and theirs[0].trigger == _abs(a, utc) \
        and (mine[0].trigger.tzinfo is None) == (tz is None)


def h_duplicates(kind: int, sk: int, s: int, t1: int, n: int, same: bool) -> bool:
    """
    Several VALARMs with IDENTICAL content (two plain "15 minutes before" reminders) each
    contribute their own times; alarms that differ in one property do too.

    pre: 0 <= kind <= 1 and 2 <= sk <= 3
    pre: 0 <= s < DAY and -DAY <= t1 <= DAY
    pre: 2 <= n <= 3
    post: _
    """
    utc = stub_utc()
    tz = utc if sk == 3 else None
    c, S, E = _mk_component(kind, sk, s, 0, 0, utc)
    alarms = []
    for i in range(n):
        al = Alarm()
        al.add("action", "DISPLAY")
        al.TRIGGER = timedelta(seconds=t1)
        if not same:
            al.add("description", "reminder %d" % i)
        c.add_component(al)
        alarms.append(al)
    times = c.alarms.times
    if len(times) != n:
        return False
    for al in alarms:
        if sum(1 for t in times if t.alarm is al) != 1:
            return False
    return all(t.trigger == _abs(S + t1, tz) for t in times)
