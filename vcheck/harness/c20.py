"""C20 - traversal is complete; equality is an order-insensitive equivalence.

Real code executed: Component.walk/_walk, Calendar.events/todos/timezones, Component.__eq__/copy,
CaselessDict.__eq__/__ne__, value __eq__s; copy.deepcopy / pickle / to_ical+from_ical per path.
Trees are a symbolic parent vector plus a symbolic kind per node.
"""
import copy
import pickle
from datetime import date, datetime, timedelta

from icalendar import Calendar, Event, Todo, Timezone, Alarm
from icalendar.cal import Component
from vcheck.hcommon import pin, pinned

KINDS = ["VEVENT", "VTODO", "X-A", "VTIMEZONE"]
QUERIES = ["VEVENT", "vevent", "VeVent", "VTODO", "vtodo", "x-a", "X-A", "VTIMEZONE", "NOPE", "VCALENDAR", "vcalendar"]


def _mk(kind_idx):
    name = KINDS[kind_idx]
    if name == "VEVENT":
        return Event()
    if name == "VTODO":
        return Todo()
    if name == "VTIMEZONE":
        return Timezone()
    c = Component()
    c.name = name
    return c


def _preorder(children, i, out):
    out.append(i)
    for ch in children[i]:
        _preorder(children, ch, out)


def h_walk(n: int, p2: int, p3: int, p4: int, k1: int, k2: int, k3: int, k4: int,
           rootcal: bool) -> bool:
    """
    walk() returns every nested component exactly once in pre-order; walk(name) (any letter case)
    and walk(select=...) are the filtered pre-order; Calendar.events/todos/timezones agree.

    pre: 1 <= n <= 5 and pinned("n", n)
    pre: 0 <= p2 <= 1 and 0 <= p3 <= 2 and 0 <= p4 <= 3
    pre: pinned("p2", p2) and pinned("p3", p3) and pinned("p4", p4)
    pre: 0 <= k1 < 4 and 0 <= k2 < 4 and 0 <= k3 < 4 and 0 <= k4 < 4
    post: _
    """
    n = pin("n", n); p2 = pin("p2", p2); p3 = pin("p3", p3); p4 = pin("p4", p4)
    parents = [None, 0, p2, p3, p4][:n]
    kinds = [None, k1, k2, k3, k4][:n]
    nodes = [Calendar() if rootcal else _mk(0)]
    for i in range(1, n):
        nodes.append(_mk(kinds[i]))
    children = [[] for _ in range(n)]
    for i in range(1, n):
        nodes[parents[i]].add_component(nodes[i])
        children[parents[i]].append(i)
    order = []
    _preorder(children, 0, order)
    root = nodes[0]
    got = root.walk()
    if len(got) != n or any(got[j] is not nodes[order[j]] for j in range(n)):
        return False
    for query in QUERIES:
        exp = [nodes[i] for i in order if nodes[i].name == query.upper()]
        got = root.walk(query)
        if len(got) != len(exp) or any(a is not b for a, b in zip(got, exp)):
            return False
        sel = root.walk(select=lambda c: c.name == query.upper())
        if len(sel) != len(exp) or any(a is not b for a, b in zip(sel, exp)):
            return False
        both = root.walk(query, select=lambda c: len(c.subcomponents) == 0)
        exp_both = [c for c in exp if len(c.subcomponents) == 0]
        if len(both) != len(exp_both) or any(a is not b for a, b in zip(both, exp_both)):
            return False
    if rootcal:
        for attr, nm in (("events", "VEVENT"), ("todos", "VTODO"), ("timezones", "VTIMEZONE")):
            e = [nodes[i] for i in order if nodes[i].name == nm]
            g = getattr(root, attr)
            if len(g) != len(e) or any(a is not b for a, b in zip(g, e)):
                return False
    return True


VALS = [None, "a", "b"]


ROOT_KINDS = ["VEVENT", "VTODO", "X-A", "X-B"]     # two known kinds, two kinds the factory does not know (plain Component)


def _root(kind, val, lower, extra_first):
    nm = ROOT_KINDS[kind]
    if nm == "VEVENT":
        c = Event()
    elif nm == "VTODO":
        c = Todo()
    else:
        c = Component()
        c.name = nm
    if extra_first:
        c.add("uid", "u")
    if val:
        c.add("summary" if lower else "SUMMARY", VALS[val])
    if not extra_first:
        c.add("UID", "u")
    return c


def h_eq_root(ka: int, va: int, kb: int, vb: int, lower: bool, order: bool) -> bool:
    """
    Equality of two childless components: reflexive, symmetric, == iff same kind and same property
    values (letter case of names and insertion order ignored); != is the negation; comparison with
    a non-component answers False and never fails.

    pre: 0 <= ka <= 3 and 0 <= kb <= 3
    pre: 0 <= va <= 2 and 0 <= vb <= 2
    post: _
    """
    a = _root(ka, va, lower, order)
    b = _root(kb, vb, False, False)
    exp = (ka == kb and va == vb)
    if not (a == a) or (a != a):
        return False
    if (a == b) != exp or (b == a) != exp or (a != b) == exp or (b != a) == exp:
        return False
    for thing in (None, 0, {}, "VEVENT", [a]):
        if (a == thing) or not (a != thing):
            return False
        if (thing == a) or not (thing != a):
            return False
    return True


def _child(desc):
    # 0: Event/a   1: Event/b   2: Todo/a
    c = Event() if desc < 2 else Todo()
    c.add("summary", "a" if desc != 1 else "b")
    return c


def h_eq_children(na: int, a1: int, a2: int, a3: int, nb: int, b1: int, b2: int, b3: int) -> bool:
    """
    Two calendars with up to three subcomponents each: equal iff the MULTISETS of subcomponents
    agree (order ignored, duplicates counted); symmetric.

    pre: 0 <= na <= 3 and 0 <= nb <= 3 and pinned("na", na) and pinned("nb", nb)
    pre: 0 <= a1 <= 2 and 0 <= a2 <= 2 and 0 <= a3 <= 2
    pre: 0 <= b1 <= 2 and 0 <= b2 <= 2 and 0 <= b3 <= 2
    post: _
    """
    na = pin("na", na); nb = pin("nb", nb)
    da = [a1, a2, a3][:na]
    db = [b1, b2, b3][:nb]
    A = Calendar()
    B = Calendar()
    for d in da:
        A.add_component(_child(d))
    for d in db:
        B.add_component(_child(d))
    exp = all(sum(1 for x in da if x == v) == sum(1 for x in db if x == v) for v in (0, 1, 2))
    return (A == B) == exp and (B == A) == exp and (A != B) == (not exp)


def h_eq_nested(d1: int, d2: int, deep: bool, swap: bool) -> bool:
    """
    A difference two levels down (a grandchild's property value or kind) is seen by equality of
    the roots, wherever the differing branch stands among its siblings.

    pre: 0 <= d1 <= 2 and 0 <= d2 <= 2
    post: _
    """
    def build(d, swapped):
        root = Calendar()
        ev = Event()
        ev.add("summary", "x")
        al = _child(d)
        if deep:
            mid = Alarm()
            mid.add_component(al)
            ev.add_component(mid)
        else:
            ev.add_component(al)
        other = Todo()
        other.add("summary", "y")
        if swapped:
            root.add_component(other)
            root.add_component(ev)
        else:
            root.add_component(ev)
            root.add_component(other)
        return root
    A = build(d1, False)
    B = build(d2, swap)
    return (A == B) == (d1 == d2) and (B == A) == (d1 == d2)


def _value(kind):
    from zoneinfo import ZoneInfo
    if kind == 0:
        return ("summary", "text; with, specials")
    if kind == 1:
        return ("dtstart", date(2020, 2, 29))
    if kind == 2:
        return ("dtstart", datetime(2020, 2, 29, 10, 0, 0))
    if kind == 3:
        return ("dtstart", datetime(2020, 2, 29, 10, 0, 0, tzinfo=ZoneInfo("UTC")))
    if kind == 4:
        return ("dtstart", datetime(2020, 2, 29, 10, 0, 0, tzinfo=ZoneInfo("Europe/Vienna")))
    if kind == 5:
        return ("duration", timedelta(hours=1, seconds=5))
    if kind == 6:
        return ("rdate", [date(2020, 3, 1), date(2020, 3, 2)])
    if kind == 7:
        return ("geo", (1.5, -2.25))
    if kind == 8:
        return ("categories", ["a", "b"])
    # list-valued upper-case parts = the shape the parser produces.  (A vRecur built from scalar or
    # lower-case values is NOT equal to its parsed form: known finding C20-K1, see known_findings.json)
    return ("rrule", {"FREQ": ["DAILY"], "COUNT": [3]})


def h_copies(k: int, v1: int, v2: int, nested: bool, how: int) -> bool:
    """
    Copies made by deepcopy, pickle or serialise-and-parse are equal to the original (both ways)
    and serialise identically.

    pre: 0 <= k <= 2
    pre: 0 <= v1 <= 9 and 0 <= v2 <= 9 and pinned("v1", v1)
    pre: 0 <= how <= 2
    post: _
    """
    v1 = pin("v1", v1)
    cal = Calendar()
    cal.add("prodid", "-//x//")
    cal.add("version", "2.0")
    c = _mk(k)
    n1, x1 = _value(v1)
    n2, x2 = _value(v2)
    c.add(n1, x1)
    if n2 != n1:
        c.add(n2, x2)
    if nested:
        al = Alarm()
        al.add("trigger", timedelta(minutes=-5))
        c.add_component(al)
    cal.add_component(c)
    if how == 0:
        cp = copy.deepcopy(cal)
    elif how == 1:
        cp = pickle.loads(pickle.dumps(cal))
    else:
        cp = Calendar.from_ical(cal.to_ical())
    return cp == cal and cal == cp and not (cp != cal) and cp.to_ical() == cal.to_ical()


def h_eq_deep(o1: int, o2: int, o3: int, o4: int, swap_top: bool, differ: int) -> bool:
    """
    Two same-named siblings with IDENTICAL properties whose children are listed in different orders
    in the two trees (depth 3): equality ignores the order of subcomponents at every level, and
    still sees a one-leaf difference.

    pre: 0 <= o1 <= 1 and 0 <= o2 <= 1 and 0 <= o3 <= 1 and 0 <= o4 <= 1
    pre: 0 <= differ <= 2
    post: _
    """
    def leaf(name):
        c = Component()
        c.name = name
        c.add("x-v", name)
        return c

    def event(names, flip):
        ev = Event()
        ev.add("summary", "same")
        kids = [leaf(n) for n in names]
        if flip:
            kids.reverse()
        for k in kids:
            ev.add_component(k)
        return ev

    def build(f1, f2, swapped, second_names):
        root = Calendar()
        a = event(["X-M", "X-Z"], f1)
        b = event(second_names, f2)
        for e in ([b, a] if swapped else [a, b]):
            root.add_component(e)
        return root
    names2 = [["X-N", "X-Y"], ["X-N", "X-Q"], ["X-M", "X-Z"]][differ]
    A = build(bool(o1), bool(o2), False, ["X-N", "X-Y"])
    B = build(bool(o3), bool(o4), bool(swap_top), names2)
    exp = differ == 0
    return (A == B) == exp and (B == A) == exp and (A != B) == (not exp)
