"""Shared driver code for the Engine-S conditions."""
import time

import z3

from vcheck.pyz3 import (Executor, PyRaise, Rope, SBytes, SStr, STimedelta, Unsupported, as_rope,
                         rope_shapes, to_z3)


class Result:
    def __init__(self):
        self.stats = {"queries": 0, "unsat": 0, "sat": 0, "unknown": 0, "paths": 0, "shapes": 0,
                      "validation_vectors": 0, "solver_s": 0.0, "terms": 0, "functions": []}
        self.samples = []
        self.cex = None
        self.what = None
        self.messages = []

    def absorb(self, ex):
        for k in ("paths", "solver_s"):
            self.stats[k] += ex.stats[k]
        self.stats["terms"] += len(ex.solver.assertions())
        for name, h in ex.functions.items():
            tag = "%s@%s" % (name, h)
            if tag not in self.stats["functions"]:
                self.stats["functions"].append(tag)

    def query(self, solver, *negated_goal):
        """check that the negated goal is unsat; returns None if it is, else a model (sat) or 'unknown'"""
        t0 = time.time()
        r = solver.check(*negated_goal)
        self.stats["solver_s"] += time.time() - t0
        self.stats["queries"] += 1
        s = str(r)
        self.stats[s] += 1
        if s == "unsat":
            return None
        if s == "sat":
            return solver.model()
        return "unknown"

    def finish(self):
        self.stats["solver_s"] = round(self.stats["solver_s"], 2)
        out = {"stats": self.stats, "samples": self.samples[:12], "messages": self.messages[:10]}
        if self.cex is not None:
            out.update(verdict="refuted", cex=self.cex, what=self.what)
        elif self.stats["unknown"] or any(m.startswith("INCONCLUSIVE") for m in self.messages):
            out["verdict"] = "unknown"
        else:
            out["verdict"] = "confirmed"
        return out


def model_int(model, term):
    v = model.eval(to_z3(term), model_completion=True)
    return v.as_long()


def text_of(x):
    """SBytes/str/Rope/SStr -> text part"""
    if isinstance(x, SBytes):
        return x.text
    return x


def prove_roundtrip(res, base, make_encode, make_decode, equal, grammar, cex_of, what, max_digits=10, decode_raises_ok=False):
    """Generic encode->decode proof over all inputs satisfying `base`.

    make_encode(ex) -> thunk evaluating to_ical on the symbolic input
    make_decode(ex2, shape) -> thunk evaluating from_ical on a shape string
    equal(value) -> z3 Bool: the decoded value equals the input
    grammar: compiled regex the representative of every emitted shape must match
    """
    ex = Executor()
    ex.solver.add(*base)
    enc = make_encode(ex)
    for outcome, val, pc in ex.explore(enc):
        if outcome == "raise":
            m = res.query(ex.solver)
            if m is None:
                continue
            if m == "unknown":
                continue
            res.cex = cex_of(m)
            res.what = "%s: encoder raises %s" % (what, val.etype)
            break
        rope = as_rope(text_of(val))
        for shape, cons in rope_shapes(ex, rope, max_digits=max_digits):
            res.stats["shapes"] += 1
            if not grammar.match(shape.rep()):
                m = res.query(ex.solver, *cons)
                if m is not None and m != "unknown":
                    res.cex = cex_of(m)
                    res.what = "%s: encoded text %r does not match the RFC grammar" % (what, shape.rep())
                    break
            ex2 = Executor()
            ex2.solver.add(*base)
            ex2.solver.add(*pc)
            ex2.solver.add(*cons)
            dec = make_decode(ex2, shape)
            for o2, v2, pc2 in ex2.explore(dec):
                if o2 == "raise":
                    m = res.query(ex2.solver)
                    if m is None:
                        continue
                    descr = "decoder raises " + v2.etype
                else:
                    m = res.query(ex2.solver, z3.Not(equal(v2)))
                    descr = "decoded value differs"
                if m is not None and m != "unknown":
                    res.cex = cex_of(m)
                    res.what = "%s: %s for shape %s" % (what, descr, shape.rep())
                    break
            res.absorb(ex2)
            if len(res.samples) < 8:
                res.samples.append({"what": what, "shape": shape.rep(), "path_constraints": len(pc), "digit_constraints": len(cons)})
            if res.cex:
                break
        if res.cex:
            break
    res.absorb(ex)


def digits(ex, n, tag="g"):
    from vcheck.pyz3 import SDigit
    ds = [SDigit(ex.fresh_int(tag)) for _ in range(n)]
    ex.solver.add(*[z3.And(d.v >= 0, d.v <= 9) for d in ds])
    return ds


def number_of(ds):
    total = 0
    for d in ds:
        total = total * 10 + d.v
    return total


def prove_decode(res, build, what, allowed_raise=("ValueError",)):
    """Generic decode proof for one text shape with symbolic digits.

    build(ex) -> (thunk, valid, check_value, describe) where
       thunk        evaluates the decoder on the shape
       valid        z3 Bool: the text denotes a value of the Python type (else ValueError is expected)
       check_value  f(value) -> z3 Bool: the returned value is the one the RFC assigns
       describe     f(model) -> dict (counterexample for the replay)
    Obligations per path: return => valid and check_value;  raise => allowed type and not valid."""
    ex = Executor()
    thunk, valid, check_value, describe = build(ex)
    for outcome, val, pc in ex.explore(thunk):
        if outcome == "raise":
            if val.etype not in allowed_raise:
                m = res.query(ex.solver)
                if m is not None and m != "unknown":
                    res.cex = describe(m)
                    res.what = "%s: raises %s" % (what, val.etype)
                    break
                continue
            m = res.query(ex.solver, valid)
            if m is not None and m != "unknown":
                res.cex = describe(m)
                res.what = "%s: grammar-valid text is rejected with %s" % (what, val.etype)
                break
        else:
            m = res.query(ex.solver, z3.Not(z3.And(valid, check_value(val))))
            if m is not None and m != "unknown":
                res.cex = describe(m)
                res.what = "%s: decoded value is not the RFC value (or an invalid text was accepted)" % what
                break
    res.absorb(ex)
    res.stats["shapes"] += 1
