"""C03 - Engine-S conditions: typed value codecs are inverses and emit RFC 5545 grammar."""
import random
import re
from datetime import date, datetime, time, timedelta

import z3

import icalendar.prop as prop
from vcheck.pyz3 import (Executor, PyRaise, Rope, SBytes, SDate, SDatetime, SDigit, SStr, STime,
                         STimedelta, Unsupported, as_rope, rope_shapes, to_z3)
from vcheck.smt.common import Result, model_int, prove_roundtrip, text_of

DUR_GRAMMAR = re.compile(r"^[+-]?P(?:\d+W|\d+D(?:T(?:\d+H(?:\d+M(?:\d+S)?)?|\d+M(?:\d+S)?|\d+S))?|T(?:\d+H(?:\d+M(?:\d+S)?)?|\d+M(?:\d+S)?|\d+S))$")
MAXD = 999999999


# --------------------------------------------------------------------------------------------
# translator validation: the same AST interpreter on CONCRETE inputs must agree with CPython

def _concrete_text(x):
    x = text_of(x)
    if isinstance(x, Rope):
        x = x.concrete()
    if isinstance(x, SStr):
        x = x.concrete()
    return x


def validate_duration(res, seed):
    rnd = random.Random(seed)
    vecs = [timedelta(0), timedelta(seconds=1), timedelta(days=1), timedelta(days=-1), timedelta(seconds=-1),
            timedelta(days=MAXD, seconds=86399), timedelta(days=-MAXD), timedelta(hours=1, seconds=5),
            timedelta(minutes=5), timedelta(days=15, hours=5, seconds=20), timedelta(weeks=7), timedelta(hours=-25)]
    for _ in range(200):
        vecs.append(timedelta(days=rnd.choice([0, 0, 1, -1, rnd.randint(-MAXD, MAXD), rnd.randint(-400, 400)]),
                              seconds=rnd.choice([0, 0, 59, 60, 3600, 3599, 86399, rnd.randint(0, 86399)])))
    ex = Executor()
    to_ical = ex.load(prop.vDuration.to_ical, "vDuration.to_ical")
    from_ical = ex.load(prop.vDuration.from_ical, "vDuration.from_ical")
    for td in vecs:
        real = prop.vDuration(td).to_ical().decode()
        outs = list(ex.explore(lambda: ex.call(to_ical, [{"td": STimedelta(td.days, td.seconds)}])))
        assert len(outs) == 1 and outs[0][0] == "return", outs
        got = _concrete_text(outs[0][1])
        if got != real:
            raise AssertionError("translator mismatch vDuration.to_ical(%r): real %r, engine %r" % (td, real, got))
        outs = list(ex.explore(lambda: ex.call(from_ical, [SStr.of(real)])))
        assert len(outs) == 1 and outs[0][0] == "return", outs
        v = outs[0][1]
        d, s = z3.simplify(to_z3(v.days)), z3.simplify(to_z3(v.seconds))
        if (d.as_long(), s.as_long()) != (td.days, td.seconds):
            raise AssertionError("translator mismatch vDuration.from_ical(%r)" % real)
        res.stats["validation_vectors"] += 2
    res.absorb(ex)


def c03_duration_roundtrip(tier, seed):
    """for ALL whole-second timedeltas: from_ical(to_ical(td)) == td and the text matches the RFC grammar"""
    res = Result()
    validate_duration(res, seed)
    ex = Executor()
    to_ical = ex.load(prop.vDuration.to_ical, "vDuration.to_ical")
    days, secs = z3.Int("days"), z3.Int("seconds")
    ex.solver.add(days >= -MAXD, days <= MAXD, secs >= 0, secs <= 86399)
    for outcome, val, pc in ex.explore(lambda: ex.call(to_ical, [{"td": STimedelta(days, secs)}])):
        if outcome == "raise":
            # to_ical must not raise for any timedelta
            m = res.query(ex.solver)
            res.cex = {"kind": "duration", "days": model_int(m, days), "seconds": model_int(m, secs)}
            res.what = "vDuration.to_ical raises " + val.etype
            break
        rope = as_rope(text_of(val))
        for shape, cons in rope_shapes(ex, rope):
            res.stats["shapes"] += 1
            if not DUR_GRAMMAR.match(shape.rep()):
                m = res.query(ex.solver, *cons)
                res.cex = {"kind": "duration", "days": model_int(m, days), "seconds": model_int(m, secs)}
                res.what = "encoded duration %r does not match the RFC 5545 dur-value grammar" % shape.rep()
                break
            ex2 = Executor()
            from_ical = ex2.load(prop.vDuration.from_ical, "vDuration.from_ical")
            ex2.solver.add(days >= -MAXD, days <= MAXD, secs >= 0, secs <= 86399)
            ex2.solver.add(*pc)
            ex2.solver.add(*cons)
            for o2, v2, pc2 in ex2.explore(lambda: ex2.call(from_ical, [shape])):
                if o2 == "raise":
                    m = res.query(ex2.solver)
                    if m is None:
                        continue
                    bad = True
                else:
                    m = res.query(ex2.solver, z3.Not(z3.And(to_z3(v2.days) == days, to_z3(v2.seconds) == secs)))
                    bad = m is not None
                if bad and m != "unknown":
                    res.cex = {"kind": "duration", "days": model_int(m, days), "seconds": model_int(m, secs)}
                    res.what = "vDuration round trip differs (decode %s) for shape %s" % (o2, shape.rep())
                    break
            res.absorb(ex2)
            if len(res.samples) < 6:
                res.samples.append({"path_shape": shape.rep(), "path_constraints": len(pc), "digit_constraints": len(cons)})
            if res.cex:
                break
        if res.cex:
            break
    res.absorb(ex)
    if res.cex and not replay_c03_duration_roundtrip(res.cex):
        res.messages.append("INCONCLUSIVE: counterexample %r does not reproduce on the real code" % (res.cex,))
        res.cex = None
    return res.finish()


def replay_c03_duration_roundtrip(cex):
    td = timedelta(days=cex["days"], seconds=cex["seconds"])
    try:
        text = prop.vDuration(td).to_ical().decode()
        if not DUR_GRAMMAR.match(text):
            return True
        return prop.vDuration.from_ical(text) != td
    except Exception:
        return True


# --------------------------------------------------------------------------------------------
# hooks: the small environment of the date/time codecs (documented contracts, part of the claim)

def install_hooks(ex):
    """tzid_from_dt(dt): None for a naive value, 'UTC' for the UTC marker, else the zone key.
    tzp.localize_utc(dt): the same fields with tz 'UTC'.  tzp.localize(dt, tz): same fields, tz attached."""
    from vcheck.pyz3 import BoundModel

    def tzid_from_dt(ex_, dt):
        tz = getattr(dt, "tz", None)
        if tz is None:
            return None
        return "UTC" if tz == "UTC" else tz[1]
    ex.models = dict(ex.models)
    ex.models["tzid_from_dt"] = BoundModel(tzid_from_dt)

    def localize_utc(ex_, obj, args, kwargs):
        (dt,) = args
        return SDatetime(dt.year, dt.month, dt.day, dt.hour, dt.minute, dt.second, tz="UTC")

    def localize(ex_, obj, args, kwargs):
        dt, tz = args
        return SDatetime(dt.year, dt.month, dt.day, dt.hour, dt.minute, dt.second, tz=tz)
    ex.method_hooks = dict(ex.method_hooks)
    ex.method_hooks["localize_utc"] = localize_utc
    ex.method_hooks["localize"] = localize


def _date_constraints(y, m, d):
    leap = z3.And(y % 4 == 0, z3.Or(y % 100 != 0, y % 400 == 0))
    dim = z3.If(z3.Or(m == 4, m == 6, m == 9, m == 11), 30, z3.If(m == 2, z3.If(leap, 29, 28), 31))
    return [y >= 1, y <= 9999, m >= 1, m <= 12, d >= 1, d <= dim]


def c03_date_roundtrip(tier, seed):
    """every calendar date 0001-01-01 .. 9999-12-31"""
    res = Result()
    y, m, d = z3.Ints("y m d")

    def enc(ex):
        pf = ex.load(prop.vDate.to_ical, "vDate.to_ical")
        return lambda: ex.call(pf, [{"dt": SDate(y, m, d)}])

    def dec(ex2, shape):
        pf = ex2.load(prop.vDate.from_ical, "vDate.from_ical")
        return lambda: ex2.call(pf, [shape])
    prove_roundtrip(res, _date_constraints(y, m, d), enc, dec,
                    lambda v: z3.And(to_z3(v.year) == y, to_z3(v.month) == m, to_z3(v.day) == d),
                    re.compile(r"^\d{8}$"), lambda mo: {"kind": "date", "y": model_int(mo, y), "m": model_int(mo, m), "d": model_int(mo, d)},
                    "vDate")
    # concrete translator validation on boundary dates
    for dt in (date(1, 1, 1), date(9999, 12, 31), date(2000, 2, 29), date(1900, 2, 28), date(2024, 2, 29), date(999, 10, 5)):
        ex = Executor()
        pf = ex.load(prop.vDate.to_ical, "vDate.to_ical")
        out = list(ex.explore(lambda: ex.call(pf, [{"dt": SDate(dt.year, dt.month, dt.day)}])))
        if _concrete_text(out[0][1]) != prop.vDate(dt).to_ical().decode():
            raise AssertionError("translator mismatch vDate.to_ical %r" % dt)
        res.stats["validation_vectors"] += 1
    return _finish(res, replay_c03_date_roundtrip)


def _finish(res, replay):
    if res.cex and not replay(res.cex):
        res.messages.append("INCONCLUSIVE: counterexample %r does not reproduce on the real code" % (res.cex,))
        res.cex = None
    return res.finish()


def replay_c03_date_roundtrip(cex):
    dt = date(cex["y"], cex["m"], cex["d"])
    try:
        t = prop.vDate(dt).to_ical().decode()
        return not re.match(r"^\d{8}$", t) or prop.vDate.from_ical(t) != dt
    except Exception:
        return True


def c03_datetime_roundtrip(tier, seed):
    """every floating and every UTC date-time to the second (fields symbolic)"""
    res = Result()
    y, m, d, H, M, S = z3.Ints("y m d H M S")
    base = _date_constraints(y, m, d) + [H >= 0, H <= 23, M >= 0, M <= 59, S >= 0, S <= 59]
    for tz, gram in ((None, r"^\d{8}T\d{6}$"), ("UTC", r"^\d{8}T\d{6}Z$")):
        def enc(ex, tz=tz):
            install_hooks(ex)
            pf = ex.load(prop.vDatetime.to_ical, "vDatetime.to_ical")
            return lambda: ex.call(pf, [{"dt": SDatetime(y, m, d, H, M, S, tz=tz), "params": {}}])

        def dec(ex2, shape):
            install_hooks(ex2)
            pf = ex2.load(prop.vDatetime.from_ical, "vDatetime.from_ical")
            return lambda: ex2.call(pf, [shape])

        def eq(v, tz=tz):
            if getattr(v, "tz", None) != tz:
                return z3.BoolVal(False)
            return z3.And(to_z3(v.year) == y, to_z3(v.month) == m, to_z3(v.day) == d, to_z3(v.hour) == H,
                          to_z3(v.minute) == M, to_z3(v.second) == S)
        prove_roundtrip(res, base, enc, dec, eq, re.compile(gram),
                        lambda mo, tz=tz: {"kind": "datetime", "utc": tz == "UTC", "fields": [model_int(mo, v) for v in (y, m, d, H, M, S)]},
                        "vDatetime(%s)" % ("UTC" if tz else "floating"))
        if res.cex:
            break
    return _finish(res, replay_c03_datetime_roundtrip)


def replay_c03_datetime_roundtrip(cex):
    from icalendar.timezone import tzp
    dt = datetime(*cex["fields"])
    if cex["utc"]:
        dt = tzp.localize_utc(dt)
    try:
        t = prop.vDatetime(dt).to_ical().decode()
        ok = re.match(r"^\d{8}T\d{6}Z$" if cex["utc"] else r"^\d{8}T\d{6}$", t)
        back = prop.vDatetime.from_ical(t)
        return not ok or back != dt or (back.tzinfo is None) != (dt.tzinfo is None)
    except Exception:
        return True


def c03_time_roundtrip(tier, seed):
    """every second of the day (TIME values)"""
    res = Result()
    H, M, S = z3.Ints("H M S")
    base = [H >= 0, H <= 23, M >= 0, M <= 59, S >= 0, S <= 59]

    def enc(ex):
        pf = ex.load(prop.vTime.to_ical, "vTime.to_ical")
        return lambda: ex.call(pf, [{"dt": STime(H, M, S)}])

    def dec(ex2, shape):
        pf = ex2.load(prop.vTime.from_ical, "vTime.from_ical")
        return lambda: ex2.call(pf, [shape])
    prove_roundtrip(res, base, enc, dec,
                    lambda v: z3.And(to_z3(v.hour) == H, to_z3(v.minute) == M, to_z3(v.second) == S),
                    re.compile(r"^\d{6}$"), lambda mo: {"kind": "time", "fields": [model_int(mo, v) for v in (H, M, S)]}, "vTime")
    return _finish(res, replay_c03_time_roundtrip)


def replay_c03_time_roundtrip(cex):
    t = time(*cex["fields"])
    try:
        text = prop.vTime(t).to_ical()
        text = text.decode() if isinstance(text, bytes) else text
        return not re.match(r"^\d{6}$", text) or prop.vTime.from_ical(text) != t
    except Exception:
        return True


def c03_utcoffset_roundtrip(tier, seed):
    """every UTC offset of whole seconds with |offset| < 24 h"""
    res = Result()
    o = z3.Int("offset")
    base = [o > -86400, o < 86400]
    days, secs = z3.Ints("od os")
    base += [o == days * 86400 + secs, secs >= 0, secs < 86400]

    def enc(ex):
        pf = ex.load(prop.vUTCOffset.to_ical, "vUTCOffset.to_ical")
        return lambda: ex.call(pf, [{"td": STimedelta(days, secs)}])

    def dec(ex2, shape):
        pf = ex2.load(prop.vUTCOffset.from_ical.__func__, "vUTCOffset.from_ical")
        return lambda: ex2.call(pf, [{"ignore_exceptions": False}, shape])
    prove_roundtrip(res, base, enc, dec,
                    lambda v: to_z3(v.days) * 86400 + to_z3(v.seconds) == o,
                    re.compile(r"^[+-]\d{4}(?:\d{2})?$"), lambda mo: {"kind": "utcoffset", "seconds": model_int(mo, o)}, "vUTCOffset")
    return _finish(res, replay_c03_utcoffset_roundtrip)


def replay_c03_utcoffset_roundtrip(cex):
    td = timedelta(seconds=cex["seconds"])
    try:
        text = prop.vUTCOffset(td).to_ical()
        text = text.decode() if isinstance(text, bytes) else text
        return not re.match(r"^[+-]\d{4}(?:\d{2})?$", text) or prop.vUTCOffset.from_ical(text) != td
    except Exception:
        return True


# --------------------------------------------------------------------------------------------
# decode direction: every grammar text -> the value the RFC assigns (or ValueError when the value
# is outside the Python type's range)

from vcheck.smt.common import digits, number_of, prove_decode

TIME_FORMS = ["H", "HM", "HMS", "M", "MS", "S"]
UNIT_SECONDS = {"W": 604800, "D": 86400, "H": 3600, "M": 60, "S": 1}
TD_MIN = -999999999 * 86400
TD_MAX = 999999999 * 86400 + 86399


def duration_forms():
    forms = [["W"], ["D"]]
    forms += [["D", "T"] + list(t) for t in TIME_FORMS]
    forms += [["T"] + list(t) for t in TIME_FORMS]
    return forms


def build_duration_shape(ex, sign, form, counts):
    """returns (SStr, total seconds term)"""
    chars = list(sign) + ["P"]
    total = 0
    k = 0
    in_time = False
    for unit in form:
        if unit == "T":
            chars.append("T")
            in_time = True
            continue
        ds = digits(ex, counts[k])
        k += 1
        chars += ds + [unit]
        total = total + number_of(ds) * UNIT_SECONDS[unit]
    if sign == "-":
        total = -total
    return SStr(chars), total


def c03_duration_decode(tier, seed):
    """every dur-value text (all forms, signs, 1..10(11)-digit numbers) decodes to the RFC value,
    or raises ValueError exactly when that value is outside the timedelta range"""
    import itertools
    res = Result()
    widths = (1, 10) if tier == "quick" else (1, 3, 10, 11)
    for sign in ("", "+", "-"):
        for form in duration_forms():
            nnum = len([u for u in form if u != "T"])
            for counts in itertools.product(widths, repeat=nnum):
                def build(ex, sign=sign, form=form, counts=counts):
                    shape, total = build_duration_shape(ex, sign, form, counts)
                    pf = ex.load(prop.vDuration.from_ical, "vDuration.from_ical")
                    valid = z3.And(total >= TD_MIN, total <= TD_MAX)

                    def check(v):
                        return to_z3(v.days) * 86400 + to_z3(v.seconds) == total

                    def describe(m):
                        text = "".join(c if isinstance(c, str) else str(m.eval(c.v, model_completion=True)) for c in shape.chars)
                        return {"kind": "duration-text", "text": text}
                    return (lambda: ex.call(pf, [shape])), valid, check, describe
                prove_decode(res, build, "vDuration.from_ical %s%s" % (sign, "".join(form)))
                if res.cex:
                    return _finish(res, replay_c03_duration_decode)
    return _finish(res, replay_c03_duration_decode)


def _rfc_duration(text):
    m = re.fullmatch(r"([+-]?)P(?:(\d+)W)?(?:(\d+)D)?(?:T(?:(\d+)H)?(?:(\d+)M)?(?:(\d+)S)?)?", text)
    sign, w, d, h, mi, s = m.groups()
    total = int(w or 0) * 604800 + int(d or 0) * 86400 + int(h or 0) * 3600 + int(mi or 0) * 60 + int(s or 0)
    return -total if sign == "-" else total


def replay_c03_duration_decode(cex):
    text = cex["text"]
    total = _rfc_duration(text)
    try:
        v = prop.vDuration.from_ical(text)
    except ValueError:
        return TD_MIN <= total <= TD_MAX
    except Exception:
        return True
    return not (TD_MIN <= total <= TD_MAX) or v != timedelta(seconds=total)


def _date_valid(y, m, d):
    return z3.And(*_date_constraints(y, m, d))


def c03_dispatch(tier, seed):
    """vDDDTypes.from_ical classifies every DATE / DATE-TIME (floating, UTC) / DURATION / PERIOD
    (both forms) text as the right type with the RFC value; invalid field values => ValueError"""
    res = Result()
    cls = ("class", prop.vDDDTypes)

    def fields(ex, n):
        return digits(ex, n)

    def dt_parts(ex, utc):
        ds = fields(ex, 14)
        y, mo, d = number_of(ds[0:4]), number_of(ds[4:6]), number_of(ds[6:8])
        H, M, S = number_of(ds[8:10]), number_of(ds[10:12]), number_of(ds[12:14])
        chars = ds[0:8] + ["T"] + ds[8:14] + (["Z"] if utc else [])
        valid = z3.And(_date_valid(y, mo, d), H <= 23, M <= 59, S <= 59)

        def check(v, tz="UTC" if utc else None):
            if not isinstance(v, SDatetime) or getattr(v, "tz", None) != tz:
                return z3.BoolVal(False)
            return z3.And(to_z3(v.year) == y, to_z3(v.month) == mo, to_z3(v.day) == d, to_z3(v.hour) == H,
                          to_z3(v.minute) == M, to_z3(v.second) == S)
        return chars, valid, check

    def describe_of(shape):
        def describe(m):
            return {"kind": "ddd-text", "text": "".join(c if isinstance(c, str) else str(m.eval(c.v, model_completion=True)) for c in shape.chars)}
        return describe

    def call(ex, shape):
        install_hooks(ex)
        pf = ex.load(prop.vDDDTypes.from_ical.__func__, "vDDDTypes.from_ical")
        return lambda: ex.call(pf, [cls, shape])

    # DATE
    def build_date(ex):
        ds = fields(ex, 8)
        y, mo, d = number_of(ds[0:4]), number_of(ds[4:6]), number_of(ds[6:8])
        shape = SStr(ds)

        def check(v):
            if not isinstance(v, SDate) or isinstance(v, SDatetime):
                return z3.BoolVal(False)
            return z3.And(to_z3(v.year) == y, to_z3(v.month) == mo, to_z3(v.day) == d)
        return call(ex, shape), _date_valid(y, mo, d), check, describe_of(shape)
    prove_decode(res, build_date, "vDDDTypes.from_ical DATE")
    # DATE-TIME floating / UTC
    for utc in (False, True):
        if res.cex:
            break

        def build_dt(ex, utc=utc):
            chars, valid, check = dt_parts(ex, utc)
            shape = SStr(chars)
            return call(ex, shape), valid, check, describe_of(shape)
        prove_decode(res, build_dt, "vDDDTypes.from_ical DATE-TIME%s" % (" UTC" if utc else ""))
    # DURATION through the dispatcher (one digit-count choice per form)
    for sign in ("", "+", "-"):
        for form in duration_forms():
            if res.cex:
                break

            def build_dur(ex, sign=sign, form=form):
                nnum = len([u for u in form if u != "T"])
                shape, total = build_duration_shape(ex, sign, form, [2] * nnum)

                def check(v):
                    if not isinstance(v, STimedelta):
                        return z3.BoolVal(False)
                    return to_z3(v.days) * 86400 + to_z3(v.seconds) == total
                return call(ex, shape), z3.BoolVal(True), check, describe_of(shape)
            prove_decode(res, build_dur, "vDDDTypes.from_ical DURATION %s%s" % (sign, "".join(form)))
    # PERIOD explicit and start/duration
    for utc in (False, True):
        for second in ("dt", "dur"):
            if res.cex:
                break

            def build_period(ex, utc=utc, second=second):
                c1, v1, chk1 = dt_parts(ex, utc)
                if second == "dt":
                    c2, v2, chk2 = dt_parts(ex, utc)
                else:
                    s2, total = build_duration_shape(ex, "", ["T", "H", "M"], [1, 2])
                    c2, v2 = s2.chars, z3.BoolVal(True)

                    def chk2(v):
                        if not isinstance(v, STimedelta):
                            return z3.BoolVal(False)
                        return to_z3(v.days) * 86400 + to_z3(v.seconds) == total
                shape = SStr(c1 + ["/"] + c2)

                def check(v):
                    if not isinstance(v, tuple) or len(v) != 2:
                        return z3.BoolVal(False)
                    return z3.And(chk1(v[0]), chk2(v[1]))
                return call(ex, shape), z3.And(v1, v2), check, describe_of(shape)
            prove_decode(res, build_period, "vDDDTypes.from_ical PERIOD %s/%s" % ("UTC" if utc else "floating", second))
    return _finish(res, replay_c03_dispatch)


def replay_c03_dispatch(cex):
    text = cex["text"]
    from icalendar.timezone import tzp

    def rfc(t):
        if t.upper().startswith(("P", "+P", "-P")):
            return timedelta(seconds=_rfc_duration(t))
        if len(t) == 8:
            return date(int(t[:4]), int(t[4:6]), int(t[6:8]))
        dt = datetime(int(t[:4]), int(t[4:6]), int(t[6:8]), int(t[9:11]), int(t[11:13]), int(t[13:15]))
        return tzp.localize_utc(dt) if t.endswith("Z") else dt
    try:
        want = tuple(rfc(p) for p in text.split("/")) if "/" in text else rfc(text)
    except (ValueError, OverflowError):
        want = None
    try:
        got = prop.vDDDTypes.from_ical(text)
    except ValueError:
        return want is not None
    except Exception:
        return True
    return want is None or got != want or type(got) is not type(want)


def c03_int_roundtrip(tier, seed):
    """INTEGER: every int with at most 10 decimal digits (covers the 32-bit range and beyond)"""
    res = Result()
    n = z3.Int("n")
    base = [n > -10 ** 10, n < 10 ** 10]

    def enc(ex):
        pf = ex.load(prop.vInt.to_ical, "vInt.to_ical")
        return lambda: ex.call(pf, [n])

    def dec(ex2, shape):
        pf = ex2.load(prop.vInt.from_ical.__func__, "vInt.from_ical")
        return lambda: ex2.call(pf, [("builtin", "int"), shape])
    prove_roundtrip(res, base, enc, dec, lambda v: to_z3(v) == n, re.compile(r"^[+-]?\d+$"),
                    lambda mo: {"kind": "int", "n": model_int(mo, n)}, "vInt")
    return _finish(res, replay_c03_int_roundtrip)


def replay_c03_int_roundtrip(cex):
    try:
        t = prop.vInt(cex["n"]).to_ical().decode()
        return not re.match(r"^[+-]?\d+$", t) or prop.vInt.from_ical(t) != cex["n"]
    except Exception:
        return True
