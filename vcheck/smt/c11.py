"""C11 - Engine-S conditions: for ALL wall-clock field values, a zoned date-time is written with the
same six fields and TZID = the zone key, and read back with the same fields and that zone attached;
UTC gives the Z suffix and no TZID; the VALUE / TZID parameters derived by vDDDTypes are right for
every value kind.  The time zone is an opaque stub carrying its key: what a provider answers for a
wall time is tz-database data behind C code and is exercised separately (vcheck/harness/c11.py)."""
import re

import z3

import icalendar.prop as prop
from vcheck.pyz3 import (BoundModel, Executor, SDate, SDatetime, SStr, STime, STimedelta, to_z3)
from vcheck.smt.c03 import _date_constraints, install_hooks
from vcheck.smt.common import Result, model_int, prove_roundtrip

KEYS = ["Europe/Vienna", "X/Custom Zone", "posix/Europe/Vaduz"]


def _params_model(ex):
    """Parameters(...) -> a caseless dict model (keys upper-cased), its documented contract"""
    def make(ex_, cls, args, kwargs):
        out = {"__caseless__": True}
        src = dict(args[0]) if args else {}
        src.update(kwargs)
        for k, v in src.items():
            out[k.upper()] = v
        return out
    ex.class_hooks = dict(ex.class_hooks)
    ex.class_hooks["Parameters"] = make


def _hooks(ex):
    install_hooks(ex)
    _params_model(ex)
    # tzp.timezone(key) -> the provider's zone for that key (opaque stub carrying the key)
    ex.method_hooks["timezone"] = lambda ex_, obj, args, kwargs: ("zone", args[0])


def c11_zoned_fields(tier, seed):
    res = Result()
    y, m, d, H, M, S = z3.Ints("y m d H M S")
    base = _date_constraints(y, m, d) + [H >= 0, H <= 23, M >= 0, M <= 59, S >= 0, S <= 59]
    for key in KEYS:
        zone = ("zone", key)
        holder = {}

        def enc(ex, zone=zone, holder=holder):
            _hooks(ex)
            pf = ex.load(prop.vDatetime.to_ical, "vDatetime.to_ical")

            def run():
                self_ = {"dt": SDatetime(y, m, d, H, M, S, tz=zone), "params": {"__caseless__": True}}
                holder["self"] = self_
                return ex.call(pf, [self_])
            return run

        def dec(ex2, shape, key=key):
            _hooks(ex2)
            pf = ex2.load(prop.vDatetime.from_ical, "vDatetime.from_ical")
            return lambda: ex2.call(pf, [shape, key])

        def eq(v, zone=zone, key=key, holder=holder):
            if getattr(v, "tz", None) != zone:
                return z3.BoolVal(False)
            if holder["self"]["params"].get("TZID") != key:
                return z3.BoolVal(False)
            return z3.And(to_z3(v.year) == y, to_z3(v.month) == m, to_z3(v.day) == d, to_z3(v.hour) == H,
                          to_z3(v.minute) == M, to_z3(v.second) == S)
        prove_roundtrip(res, base, enc, dec, eq, re.compile(r"^\d{8}T\d{6}$"),
                        lambda mo, key=key: {"kind": "zoned", "key": key, "fields": [model_int(mo, v) for v in (y, m, d, H, M, S)]},
                        "vDatetime zoned (%s)" % key)
        if res.cex:
            break
    if res.cex and not replay_c11_zoned_fields(res.cex):
        res.messages.append("INCONCLUSIVE: counterexample %r does not reproduce" % (res.cex,))
        res.cex = None
    return res.finish()


def replay_c11_zoned_fields(cex):
    from datetime import datetime
    from zoneinfo import ZoneInfo
    dt = datetime(*cex["fields"], tzinfo=ZoneInfo("Europe/Vienna"))
    v = prop.vDatetime(dt)
    try:
        t = v.to_ical().decode()
        back = prop.vDatetime.from_ical(t, "Europe/Vienna")
        return not (re.match(r"^\d{8}T\d{6}$", t) and v.params.get("TZID") == "Europe/Vienna"
                    and back.replace(tzinfo=None) == dt.replace(tzinfo=None) and back.tzinfo is not None)
    except Exception:
        return True


def c11_ddd_params(tier, seed):
    """vDDDTypes.__init__: VALUE and TZID parameters for every value kind (fields symbolic)"""
    res = Result()
    y, m, d, H, M, S = z3.Ints("y m d H M S")
    base = _date_constraints(y, m, d) + [H >= 0, H <= 23, M >= 0, M <= 59, S >= 0, S <= 59]
    zone = ("zone", "Europe/Vienna")
    cases = [
        ("floating date-time", lambda: SDatetime(y, m, d, H, M, S, tz=None), {}),
        ("UTC date-time", lambda: SDatetime(y, m, d, H, M, S, tz="UTC"), {}),
        ("zoned date-time", lambda: SDatetime(y, m, d, H, M, S, tz=zone), {"TZID": "Europe/Vienna"}),
        ("date", lambda: SDate(y, m, d), {"VALUE": "DATE"}),
        ("duration", lambda: STimedelta(d, S), {}),
        ("time", lambda: STime(H, M, S), {"VALUE": "TIME"}),
        ("zoned time", lambda: STime(H, M, S, tz=zone), {"VALUE": "TIME", "TZID": "Europe/Vienna"}),
        ("period", lambda: (SDatetime(y, m, d, H, M, S, tz=None), STimedelta(0, S)), {"VALUE": "PERIOD"}),
    ]
    for label, mk, want in cases:
        ex = Executor()
        _hooks(ex)
        ex.solver.add(*base)
        pf = ex.load(prop.vDDDTypes.__init__, "vDDDTypes.__init__")
        holder = {}

        def run():
            self_ = {}
            holder["self"] = self_
            return ex.call(pf, [self_, mk()])
        for outcome, val, pc in ex.explore(run):
            res.stats["queries"] += 1
            got = {k: v for k, v in holder["self"].get("params", {}).items() if k != "__caseless__"}
            if outcome == "raise" or got != want or "dt" not in holder["self"]:
                m_ = res.query(ex.solver)
                if m_ is not None and m_ != "unknown":
                    res.cex = {"kind": "ddd-params", "case": label, "got": str(got), "want": str(want)}
                    res.what = "vDDDTypes(%s): parameters %r, expected %r" % (label, got, want)
                    break
            else:
                res.stats["unsat"] += 1
        res.absorb(ex)
        res.samples.append({"case": label, "params": want})
        if res.cex:
            break
    if res.cex and not replay_c11_ddd_params(res.cex):
        res.messages.append("INCONCLUSIVE: counterexample %r does not reproduce" % (res.cex,))
        res.cex = None
    return res.finish()


def replay_c11_ddd_params(cex):
    from datetime import date, datetime, time, timedelta
    from zoneinfo import ZoneInfo
    v = ZoneInfo("Europe/Vienna")
    vals = {"floating date-time": datetime(2020, 1, 1, 1), "UTC date-time": datetime(2020, 1, 1, 1, tzinfo=ZoneInfo("UTC")),
            "zoned date-time": datetime(2020, 1, 1, 1, tzinfo=v), "date": date(2020, 1, 1), "duration": timedelta(1),
            "time": time(1, 2, 3), "zoned time": time(1, 2, 3, tzinfo=v), "period": (datetime(2020, 1, 1, 1), timedelta(1))}
    want = {"floating date-time": {}, "UTC date-time": {}, "zoned date-time": {"TZID": "Europe/Vienna"}, "date": {"VALUE": "DATE"},
            "duration": {}, "time": {"VALUE": "TIME"}, "zoned time": {"VALUE": "TIME", "TZID": "Europe/Vienna"}, "period": {"VALUE": "PERIOD"}}
    try:
        return dict(prop.vDDDTypes(vals[cex["case"]]).params) != want[cex["case"]]
    except Exception:
        return True
