"""C06 - Engine-S conditions for foldline (parser.py): octet budget and whole characters.

S1  inductive step of the per-character loop: the loop body is taken from foldline's AST and executed
    once from an ARBITRARY state satisfying the invariant, with a character of arbitrary UTF-8 width
    1..4 -> the invariant holds again and every closed physical line has <= 75 octets.  Together with
    the base case this covers lines of every length.
S2  the all-ASCII fast path: the slice bounds and the range step are evaluated from the AST with a
    symbolic index and a symbolic length; z3 proves that the pieces tile the line, are non-empty and
    give physical lines of <= 75 octets.
"""
import ast
import inspect
import textwrap

import z3

import icalendar.parser as parser
from vcheck.pyz3 import BoundModel, Executor, PyRaise, SBytes, Unsupported, to_z3
from vcheck.smt.common import Result, model_int

LIMIT_OCTETS = 75


class WChar:
    """a character given by a symbolic code point; its UTF-8 width follows from the code point"""

    def __init__(self, width, codepoint=None):
        self.width = width
        self.codepoint = codepoint


class WBytes:
    def __init__(self, n):
        self.n = n


class Ghost(list):
    """ret_chars: records what the loop body appends"""


def _foldline_ast(ex):
    pf = ex.load(parser.foldline, "parser.foldline")
    fn = pf.node
    loop = [st for st in fn.body if isinstance(st, ast.For)]
    if len(loop) != 1:
        raise Unsupported("foldline: expected exactly one for loop")
    defaults = {a.arg: d for a, d in zip(fn.args.args[-len(fn.args.defaults):], fn.args.defaults)}
    limit = ast.literal_eval(defaults["limit"])
    fold_sep = ast.literal_eval(defaults["fold_sep"])
    return pf, fn, loop[0], limit, fold_sep


def _install(ex):
    def method_encode(ex_, obj, args, kwargs):
        return WBytes(obj.width)
    ex.method_hooks = dict(ex.method_hooks)
    ex.method_hooks["encode"] = lambda ex_, obj, args, kwargs: WBytes(obj.width) if isinstance(obj, WChar) else (_ for _ in ()).throw(Unsupported("encode"))
    ex.method_hooks["append"] = lambda ex_, obj, args, kwargs: obj.append(args[0])
    orig_builtin = ex.builtin

    def builtin(name, args, kwargs):
        if name == "len" and isinstance(args[0], WBytes):
            return args[0].n
        return orig_builtin(name, args, kwargs)
    ex.builtin = builtin


def c06_loop_step(tier, seed):
    res = Result()
    ex = Executor()
    _install(ex)
    pf, fn, loop, limit, fold_sep = _foldline_ast(ex)
    if fold_sep != "\r\n ":
        res.cex = {"kind": "fold_sep", "fold_sep": fold_sep}
        res.what = "default fold separator is not CRLF + one space"
        return res.finish()
    if not (isinstance(loop.target, ast.Name) and isinstance(loop.iter, ast.Name) and loop.iter.id == "line"):
        raise Unsupported("foldline loop shape changed")
    # the statements that initialise the loop state must be `ret_chars = []` and `byte_count = 0`
    init = {}
    for st in fn.body:
        if isinstance(st, ast.Assign) and len(st.targets) == 1 and isinstance(st.targets[0], ast.Name):
            try:
                init[st.targets[0].id] = ast.literal_eval(st.value)
            except Exception:
                pass
    if init.get("byte_count") != 0 or init.get("ret_chars") != []:
        raise Unsupported("foldline loop initialisation changed: %r" % (init,))
    bc, cur, cont, w, cp = z3.Ints("byte_count cur cont w cp")
    # invariant: cur = octets of the open physical line; cont = 1 on a continuation line (its added space)
    inv = lambda b, c, k: z3.And(k >= 0, k <= 1, b >= 0, b <= LIMIT_OCTETS - 1, c == b + k, c <= LIMIT_OCTETS)
    # the character: any code point except LF (asserted by foldline) and surrogates; w = its UTF-8 width
    ex.solver.add(inv(bc, cur, cont), cp >= 0, cp <= 0x10FFFF, cp != 10, z3.Or(cp < 0xD800, cp > 0xDFFF),
                  w == z3.If(cp < 0x80, 1, z3.If(cp < 0x800, 2, z3.If(cp < 0x10000, 3, 4))))
    # base case: the initial state satisfies the invariant
    s0 = z3.Solver()
    s0.add(z3.Not(inv(z3.IntVal(0), z3.IntVal(0), z3.IntVal(0))))
    if res.query(s0) is not None:
        res.cex = {"kind": "base"}
        res.what = "initial loop state violates the invariant"
        return res.finish()
    char = WChar(w, cp)

    def body():
        ghost = Ghost()
        env = {"line": None, "limit": limit, "fold_sep": fold_sep, "ret_chars": ghost, "byte_count": bc,
               loop.target.id: char}
        ex.exec_block(loop.body, env, pf)
        return env["byte_count"], ghost
    for outcome, val, pc in ex.explore(body):
        if outcome == "raise":
            m = res.query(ex.solver)
            if m is not None:
                res.cex = {"kind": "step", "byte_count": model_int(m, bc), "width": model_int(m, w)}
                res.what = "loop body raises " + val.etype
                break
            continue
        nbc, ghost = val
        # structure: the body appends [fold_sep,] char  - whole characters only, one separator at most
        items = list(ghost)
        if not (items == [char] or items == [fold_sep, char]):
            m = res.query(ex.solver)
            if m is not None:
                res.cex = {"kind": "step", "byte_count": model_int(m, bc), "width": model_int(m, w)}
                res.what = "loop body appends %r (not [fold_sep,] char)" % (items,)
                break
            continue
        folded = len(items) == 2
        if folded:
            closed_ok = cur <= LIMIT_OCTETS            # the line that was just closed
            ncur, ncont = 1 + w, z3.IntVal(1)
        else:
            closed_ok = z3.BoolVal(True)
            ncur, ncont = cur + w, cont
        goal = z3.And(closed_ok, inv(to_z3(nbc), ncur, ncont))
        m = res.query(ex.solver, z3.Not(goal))
        if m is not None and m != "unknown":
            res.cex = {"kind": "step", "byte_count": model_int(m, bc), "width": model_int(m, w), "cont": model_int(m, cont)}
            res.what = "invariant (open line <= 75 octets, byte_count <= 74) not preserved by one loop iteration"
            break
        res.samples.append({"path": "fold" if folded else "no fold", "path_constraints": len(pc)})
    res.absorb(ex)
    if res.cex and not replay_c06_loop_step(res.cex):
        res.messages.append("INCONCLUSIVE: counterexample %r does not reproduce" % (res.cex,))
        res.cex = None
    return res.finish()


def _check_real(line):
    out = parser.foldline(line)
    phys = out.split("\r\n")
    if any(len(p.encode("utf-8")) > LIMIT_OCTETS for p in phys):
        return True
    if any(not p.startswith(" ") for p in phys[1:]):
        return True
    return parser.uFOLD.sub("", out) != line


def replay_c06_loop_step(cex):
    """search the real function around the abstract counterexample state"""
    if cex.get("kind") != "step":
        return True
    wch = {1: "a", 2: "é", 3: "€", 4: "😀"}
    special = chr(cex["codepoint"]) if "codepoint" in cex else wch[cex.get("width", 1)]
    for prefix_w in (1, 2, 3, 4):
        for total in range(60, 160):
            for lastw in (1, 2, 3, 4):
                n = total // prefix_w
                for tail in (wch[cex.get("width", 1)] * 3, special * 3, special + "a" * 80, special * 40):
                    line = wch[prefix_w] * n + "é" + wch[lastw] * 3 + tail
                    if _check_real(line):
                        return True
    return False


def c06_ascii_path(tier, seed):
    res = Result()
    ex = Executor()
    pf, fn, loop, limit, fold_sep = _foldline_ast(ex)
    # locate: try: line.encode('ascii') ... else: return fold_sep.join(<gen>)
    tries = [st for st in fn.body if isinstance(st, ast.Try)]
    if len(tries) != 1 or len(tries[0].orelse) != 1 or not isinstance(tries[0].orelse[0], ast.Return):
        raise Unsupported("foldline ASCII fast path shape changed")
    tr = tries[0]
    b0 = tr.body[0]
    ok_guard = (len(tr.body) == 1 and isinstance(b0, ast.Expr) and isinstance(b0.value, ast.Call)
                and isinstance(b0.value.func, ast.Attribute) and b0.value.func.attr == "encode"
                and isinstance(b0.value.func.value, ast.Name) and b0.value.func.value.id == "line"
                and len(b0.value.args) == 1 and isinstance(b0.value.args[0], ast.Constant) and b0.value.args[0].value == "ascii")
    if not ok_guard:
        raise Unsupported("foldline ASCII guard changed")
    ret = tr.orelse[0].value
    if not (isinstance(ret, ast.Call) and isinstance(ret.func, ast.Attribute) and ret.func.attr == "join"
            and isinstance(ret.func.value, ast.Name) and ret.func.value.id == "fold_sep"
            and len(ret.args) == 1 and isinstance(ret.args[0], ast.GeneratorExp)):
        raise Unsupported("foldline ASCII return shape changed")
    gen = ret.args[0]
    comp = gen.generators[0]
    if len(gen.generators) != 1 or comp.ifs or not isinstance(comp.target, ast.Name):
        raise Unsupported("generator shape")
    it = comp.iter
    if not (isinstance(it, ast.Call) and isinstance(it.func, ast.Name) and it.func.id == "range" and len(it.args) == 3):
        raise Unsupported("range shape")
    elt = gen.elt
    if not (isinstance(elt, ast.Subscript) and isinstance(elt.value, ast.Name) and elt.value.id == "line"
            and isinstance(elt.slice, ast.Slice) and elt.slice.step is None):
        raise Unsupported("slice shape")
    n, i = z3.Ints("n i")
    env = {"limit": limit, "fold_sep": fold_sep, comp.target.id: i}

    class LenOf:
        pass
    orig_builtin = ex.builtin

    def builtin(name, args, kwargs):
        if name == "len" and isinstance(args[0], LenOf):
            return n
        return orig_builtin(name, args, kwargs)
    ex.builtin = builtin
    env["line"] = LenOf()
    start = ex.eval(it.args[0], env, pf)
    stop = ex.eval(it.args[1], env, pf)
    step = ex.eval(it.args[2], env, pf)
    lo = ex.eval(elt.slice.lower, env, pf) if elt.slice.lower is not None else 0
    hi = ex.eval(elt.slice.upper, env, pf) if elt.slice.upper is not None else n
    s = z3.Solver()
    s.add(n >= 1, i >= 0, i < to_z3(stop), (i - to_z3(start)) % to_z3(step) == 0, i >= to_z3(start))
    piece = z3.If(to_z3(hi) < n, to_z3(hi), n) - to_z3(lo)
    goal = z3.And(to_z3(step) >= 1, to_z3(start) == 0, to_z3(stop) == n, to_z3(lo) == i, to_z3(hi) == i + to_z3(step),
                  piece >= 1, piece + z3.If(i > 0, 1, 0) <= LIMIT_OCTETS)
    m = res.query(s, z3.Not(goal))
    if m is not None and m != "unknown":
        res.cex = {"kind": "ascii", "n": model_int(m, n), "i": model_int(m, i)}
        res.what = "ASCII fast path: pieces do not tile the line or a physical line exceeds 75 octets"
    res.samples.append({"step": str(step), "slice": "[%s:%s]" % (lo, hi)})
    res.absorb(ex)
    if res.cex and not replay_c06_ascii_path(res.cex):
        res.messages.append("INCONCLUSIVE: counterexample %r does not reproduce" % (res.cex,))
        res.cex = None
    return res.finish()


def replay_c06_ascii_path(cex):
    for n in sorted({cex["n"], cex["n"] + 1, 74, 75, 76, 148, 149, 150, 300}):
        if n >= 1 and n < 5000:
            for ch in ("a", " ", "\r", "\t"):
                if _check_real("x" + ch * (n - 1)) or _check_real(ch * n):
                    return True
    return False
