"""C04 - Engine-S condition: every value decoder converts its failures to ValueError.

Texts are shape strings: all-digit strings of many lengths (every digit symbolic), and the same
with one non-digit character (T Z + - / P W x SP) at every position - grammar-valid and
near-grammar texts alike.  On every path of the decoder's AST the only exception type is ValueError."""
import z3

import icalendar.prop as prop
from vcheck.pyz3 import Executor, SStr, Unsupported
from vcheck.smt.c03 import install_hooks
from vcheck.smt.common import Result, digits

LENGTHS_QUICK = [0, 1, 2, 4, 5, 6, 7, 8, 9, 14, 15, 16, 17]
LENGTHS_THOROUGH = list(range(0, 20))
SPECIALS = ["T", "Z", "+", "-", "/", "P", "W", "x", " ", "H", "S"]


def _decoders(ex):
    cls = lambda c: ("class", c)
    return [
        ("vDate.from_ical", lambda s: ex.call(ex.load(prop.vDate.from_ical, "vDate.from_ical"), [s])),
        ("vDatetime.from_ical", lambda s: ex.call(ex.load(prop.vDatetime.from_ical, "vDatetime.from_ical"), [s])),
        ("vTime.from_ical", lambda s: ex.call(ex.load(prop.vTime.from_ical, "vTime.from_ical"), [s])),
        ("vDuration.from_ical", lambda s: ex.call(ex.load(prop.vDuration.from_ical, "vDuration.from_ical"), [s])),
        ("vUTCOffset.from_ical", lambda s: ex.call(ex.load(prop.vUTCOffset.from_ical.__func__, "vUTCOffset.from_ical"), [{"ignore_exceptions": False}, s])),
        ("vDDDTypes.from_ical", lambda s: ex.call(ex.load(prop.vDDDTypes.from_ical.__func__, "vDDDTypes.from_ical"), [cls(prop.vDDDTypes), s])),
        ("vPeriod.from_ical", lambda s: ex.call(ex.load(prop.vPeriod.from_ical, "vPeriod.from_ical"), [s])),
        ("vDDDLists.from_ical", lambda s: ex.call(ex.load(prop.vDDDLists.from_ical, "vDDDLists.from_ical"), [s])),
    ]


def c04_decoders(tier, seed):
    res = Result()
    lengths = LENGTHS_QUICK if tier == "quick" else LENGTHS_THOROUGH
    specials = SPECIALS[:6] if tier == "quick" else SPECIALS
    shapes = []
    for n in lengths:
        shapes.append((n, None, None))
        for pos in range(n + 1):
            for ch in specials:
                shapes.append((n, pos, ch))
    names = [d[0] for d in _decoders(Executor())]
    for di, dname in enumerate(names):
        for n, pos, ch in shapes:
            ex = Executor()
            install_hooks(ex)
            ds = digits(ex, n)
            chars = list(ds)
            if pos is not None:
                chars.insert(pos, ch)
            shape = SStr(chars)
            thunk = _decoders(ex)[di][1]
            for outcome, val, pc in ex.explore(lambda: thunk(shape)):
                if outcome == "raise" and val.etype != "ValueError":
                    m = res.query(ex.solver)
                    if m is not None and m != "unknown":
                        text = "".join(c if isinstance(c, str) else str(m.eval(c.v, model_completion=True)) for c in shape.chars)
                        res.cex = {"decoder": dname, "text": text}
                        res.what = "%s raises %s for %r" % (dname, val.etype, text)
                        break
                else:
                    res.stats["queries"] += 1
                    res.stats["unsat"] += 1    # obligation discharged structurally: no non-ValueError raise on this path
            res.absorb(ex)
            res.stats["shapes"] += 1
            if res.cex:
                break
        if res.cex:
            break
    if res.cex and not replay_c04_decoders(res.cex):
        res.messages.append("INCONCLUSIVE: counterexample %r does not reproduce" % (res.cex,))
        res.cex = None
    res.samples.append({"decoders": names, "lengths": lengths, "specials": specials})
    return res.finish()


def replay_c04_decoders(cex):
    fn = {"vDate.from_ical": prop.vDate.from_ical, "vDatetime.from_ical": prop.vDatetime.from_ical, "vTime.from_ical": prop.vTime.from_ical,
          "vDuration.from_ical": prop.vDuration.from_ical, "vUTCOffset.from_ical": prop.vUTCOffset.from_ical,
          "vDDDTypes.from_ical": prop.vDDDTypes.from_ical, "vPeriod.from_ical": prop.vPeriod.from_ical,
          "vDDDLists.from_ical": prop.vDDDLists.from_ical}[cex["decoder"]]
    try:
        fn(cex["text"])
    except ValueError:
        return False
    except Exception:
        return True
    return False
