"""Helpers shared by the CrossHair harness modules (vcheck/harness/*.py).

Nothing here touches /repo; the harnesses import the live `icalendar` from /repo/src (PYTHONPATH).
"""
import os
from datetime import datetime, timedelta, timezone

TIER = os.environ.get("VERIF_TIER") or os.environ.get("VCHECK_TIER") or "quick"
THOROUGH = TIER == "thorough"
SYMBOLIC = os.environ.get("VCHECK_SYMBOLIC") == "1"


import json as _json
PARAMS = _json.loads(os.environ.get("VCHECK_PARAMS") or "{}")


def pinned(name, value):
    """Precondition helper for sharding: True unless the runner pinned `name` to another value.

    A condition is split into shards by pinning selector arguments (component kind, API route,
    repeat count ...) to constants through the VCHECK_PARAMS environment variable; the union of the
    shards registered in vcheck/props/*.py is the whole selector range."""
    if name not in PARAMS:
        return True
    return value == PARAMS[name]


def pin(name, value):
    """The pinned constant for a sharded selector (a plain Python value), else the symbolic value.

    Using the constant inside the harness body keeps list/type lookups concrete (a symbolic index
    into a list of classes makes CrossHair build a symbolic *type*, which it refuses to call)."""
    if name in PARAMS:
        return PARAMS[name]
    return value


def tier(quick, thorough):
    """Pick a bound by tier."""
    return thorough if THOROUGH else quick


def stub_utc():
    """Stub of ZONEINFO.utc for symbolic runs.

    The C-level zoneinfo.ZoneInfo('UTC') rejects CrossHair's pure-Python datetime proxies
    (TypeError in utcoffset), so under CrossHair the provider's UTC object is replaced by a
    `datetime.timezone(timedelta(0), 'UTC')` that is created *inside* the traced call (so that it
    is CrossHair's own pure-Python timezone class).  Contract of the stub: utcoffset 0, name 'UTC'.
    Outside CrossHair (replay, concrete validation) nothing is patched and the real ZoneInfo runs.
    Returns the tzinfo to use for building aware UTC datetimes in the harness.
    """
    if SYMBOLIC:
        from icalendar.timezone.zoneinfo import ZONEINFO
        utc = timezone(timedelta(0), "UTC")
        ZONEINFO.utc = utc
        return utc
    from icalendar.timezone import tzp
    return tzp.localize_utc(datetime(2000, 1, 1)).tzinfo


def mkdt(sec, tz=None, day=1, month=1, year=2020):
    """datetime on a fixed date at second-of-day `sec` (0 <= sec < 86400), built from *fields*.

    Measured: `BASE + timedelta(seconds=symbolic)` makes z3 spend ~1 s per branch on div/mod
    towers; field construction with constant divisors keeps the queries linear and fast.
    """
    return datetime(year, month, day, sec // 3600, sec % 3600 // 60, sec % 60, tzinfo=tz)


def same_instant(a, b):
    """a and b are both None, or the same aware instant / the same naive wall time."""
    if a is None or b is None:
        return a is None and b is None
    return a == b
