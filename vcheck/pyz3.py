"""Engine S - a small forking symbolic executor for a subset of Python over the AST of functions
taken from /repo's current source, with z3 as the decision procedure.

The source of every analysed function is read with inspect.getsource() from the live module on every
run, parsed with `ast` and interpreted here over symbolic values:

  integers / booleans   z3 Int / Bool terms (Python ints stay Python ints)
  SStr                  a string of CONCRETE length whose characters are concrete or symbolic decimal
                        digits (z3 Int in 0..9) - a "shape string"
  Rope                  text built from literals and decimal renderings Dec(int term, min width) whose
                        digit count is not yet fixed
  STimedelta, SDate, SDatetime, STime   models of the datetime classes (normalisation, range errors)

Control flow is explored path by path (re-execution with a decision prefix, z3 feasibility checks at
every symbolic branch).  Anything outside the subset raises Unsupported -> the caller reports
"inconclusive", never a pass.
"""
import ast
import inspect
import re
import textwrap

import z3

try:  # Python 3.11+: re._parser
    import re._parser as sre_parse
except ImportError:  # pragma: no cover
    import sre_parse


class Unsupported(Exception):
    pass


class PyRaise(Exception):
    """A Python exception raised by the interpreted code (type name + message)."""

    def __init__(self, etype, msg="", cause=None):
        super().__init__(etype, msg)
        self.etype = etype
        self.msg = msg
        self.cause = cause


class _Return(Exception):
    def __init__(self, value):
        self.value = value


class Infeasible(Exception):
    pass


EXC_PARENTS = {
    "ValueError": "Exception", "OverflowError": "ArithmeticError", "ArithmeticError": "Exception",
    "TypeError": "Exception", "IndexError": "LookupError", "LookupError": "Exception",
    "KeyError": "LookupError", "AttributeError": "Exception", "AssertionError": "Exception",
    "UnicodeEncodeError": "UnicodeError", "UnicodeDecodeError": "UnicodeError", "UnicodeError": "ValueError",
    "Exception": "BaseException", "ZeroDivisionError": "ArithmeticError",
}


def exc_isinstance(etype, handler):
    t = etype
    while t is not None:
        if t == handler:
            return True
        t = EXC_PARENTS.get(t)
    return False


# ----------------------------------------------------------------------------------------------
# values

def is_sym(x):
    return isinstance(x, z3.ExprRef)


def to_z3(x):
    if isinstance(x, bool):
        return z3.BoolVal(x)
    if isinstance(x, int):
        return z3.IntVal(x)
    return x


class SDigit:
    """a symbolic decimal digit"""
    __slots__ = ("v",)

    def __init__(self, v):
        self.v = v

    def __repr__(self):
        return "<%s>" % self.v


class SStr:
    """string of concrete length; chars are 1-char str or SDigit"""

    def __init__(self, chars):
        self.chars = list(chars)

    @staticmethod
    def of(s):
        return SStr(list(s))

    def __len__(self):
        return len(self.chars)

    def rep(self):
        """representative: every symbolic digit shown as '7'"""
        return "".join(c if isinstance(c, str) else "7" for c in self.chars)

    def concrete(self):
        if all(isinstance(c, str) for c in self.chars):
            return "".join(self.chars)
        return None

    def __repr__(self):
        return "SStr(%s)" % "".join(c if isinstance(c, str) else "#" for c in self.chars)


class Dec:
    """decimal rendering of an int term with a minimal width (zero padded); sign handled by caller"""

    def __init__(self, term, width=1):
        self.term = term
        self.width = width


class Rope:
    def __init__(self, atoms=(), lossy=False):
        self.atoms = list(atoms)   # str | Dec
        # lossy: contains the representative of a symbolic shape string (only ever built for the
        # text of error messages); such a rope must never be used as a value
        self.lossy = lossy

    def __add__(self, other):
        o = as_rope(other)
        return Rope(self.atoms + o.atoms, self.lossy or o.lossy)

    def concrete(self):
        if self.lossy:
            return None
        out = []
        for a in self.atoms:
            if isinstance(a, str):
                out.append(a)
            elif isinstance(a.term, int) and a.term >= 0:
                out.append(format(a.term, "0%d" % a.width))
            else:
                return None
        return "".join(out)

    def __repr__(self):
        return "Rope(%s)" % "".join(a if isinstance(a, str) else "{%s:%d}" % (a.term, a.width) for a in self.atoms)


def as_rope(x):
    if isinstance(x, Rope):
        return x
    if isinstance(x, str):
        return Rope([x])
    if isinstance(x, SStr):
        c = x.concrete()
        if c is None:
            return Rope([x.rep()], lossy=True)
        return Rope([c])
    if isinstance(x, SBytes):
        return as_rope(x.text)
    raise Unsupported("as_rope(%r)" % (x,))


class SBytes:
    """bytes value wrapping text (ASCII only in the kernels analysed)"""

    def __init__(self, text):
        self.text = text   # str | Rope | SStr


class SNone:
    pass


class STimedelta:
    def __init__(self, days, seconds):
        self.days = days
        self.seconds = seconds

    def __repr__(self):
        return "STimedelta(%s, %s)" % (self.days, self.seconds)


class SDate:
    def __init__(self, year, month, day):
        self.year, self.month, self.day = year, month, day


class STime:
    def __init__(self, hour, minute, second, tz=None):
        self.hour, self.minute, self.second, self.tz = hour, minute, second, tz


class SDatetime(SDate):
    def __init__(self, year, month, day, hour, minute, second, tz=None):
        SDate.__init__(self, year, month, day)
        self.hour, self.minute, self.second, self.tz = hour, minute, second, tz


class SMatch:
    def __init__(self, groups):
        self._groups = groups

    def groups(self):
        return tuple(self._groups)


class PyFunc:
    """a repo function given by its AST"""

    def __init__(self, name, node, globs, source_hash):
        self.name, self.node, self.globs, self.source_hash = name, node, globs, source_hash


class BoundModel:
    def __init__(self, fn):
        self.fn = fn


# ----------------------------------------------------------------------------------------------
# regex support: patterns are run by the REAL re engine on the representative; this is sound only
# if the pattern cannot tell decimal digits apart - checked here on the parsed pattern.

def pattern_digit_uniform(pattern):
    def walk(items):
        for op, av in items:
            name = str(op)
            if name == "LITERAL" or name == "NOT_LITERAL":
                if chr(av).isdigit():
                    return False
            elif name == "IN":
                for op2, av2 in av:
                    n2 = str(op2)
                    if n2 == "LITERAL" and chr(av2).isdigit():
                        return False
                    if n2 == "RANGE":
                        lo, hi = av2
                        digits = [lo <= ord(d) <= hi for d in "0123456789"]
                        if any(digits) and not all(digits):
                            return False
            elif name in ("MAX_REPEAT", "MIN_REPEAT", "POSSESSIVE_REPEAT"):
                if not walk(av[2]):
                    return False
            elif name == "SUBPATTERN":
                if not walk(av[3]):
                    return False
            elif name == "BRANCH":
                for alt in av[1]:
                    if not walk(alt):
                        return False
            elif name in ("AT", "CATEGORY", "ANY", "NEGATE"):
                pass
            elif name in ("ASSERT", "ASSERT_NOT"):
                if not walk(av[1]):
                    return False
            elif name == "GROUPREF":
                return False
            else:
                return False
        return True
    return walk(sre_parse.parse(pattern.pattern, pattern.flags))


# ----------------------------------------------------------------------------------------------
# the executor

class Executor:
    def __init__(self, max_paths=20000, timeout_ms=30000):
        self.solver = z3.Solver()
        self.solver.set("timeout", timeout_ms)
        self.decisions = []
        self.prefix = []
        self.pos = 0
        self.fresh = 0
        self.path_cond = []
        self.stats = {"paths": 0, "queries": 0, "unsat": 0, "sat": 0, "unknown": 0, "branch_checks": 0,
                      "solver_s": 0.0}
        self.max_paths = max_paths
        self.functions = {}

    # -- solver helpers
    def fresh_int(self, name="t"):
        self.fresh += 1
        return z3.Int("%s!%d" % (name, self.fresh))

    def check(self, *extra):
        import time
        t0 = time.time()
        r = self.solver.check(*extra)
        self.stats["solver_s"] += time.time() - t0
        return r

    def assume(self, cond):
        """add a path constraint (z3 Bool or Python bool)"""
        if isinstance(cond, bool):
            if not cond:
                raise Infeasible()
            return
        self.path_cond.append(cond)
        self.solver.add(cond)

    def branch(self, cond):
        """decide a (possibly symbolic) condition, forking when both sides are feasible"""
        if isinstance(cond, bool):
            return cond
        cond = z3.simplify(cond)
        if z3.is_true(cond):
            return True
        if z3.is_false(cond):
            return False
        self.stats["branch_checks"] += 1
        can_t = self.check(cond)
        can_f = self.check(z3.Not(cond))
        if str(can_t) == "unknown" or str(can_f) == "unknown":
            raise Unsupported("solver unknown at a branch: " + self.solver.reason_unknown())
        t, f = str(can_t) == "sat", str(can_f) == "sat"
        if t and f:
            # a decision point: follow the prefix while replaying, else take True first
            if self.pos < len(self.prefix):
                d = self.prefix[self.pos]
            else:
                d = [True, False]   # [choice, other side already explored?]
            self.pos += 1
            self.decisions.append(d)
            self.assume(cond if d[0] else z3.Not(cond))
            return d[0]
        if t:
            self.assume(cond)
            return True
        if f:
            self.assume(z3.Not(cond))
            return False
        raise Infeasible()

    def explore(self, thunk):
        """run thunk() over every feasible path; yields (outcome, value, path_cond) where outcome is
        'return' or 'raise'."""
        self.prefix = []
        while True:
            self.solver.push()
            self.decisions = []
            self.pos = 0
            self.path_cond = []
            result = None
            try:
                try:
                    v = thunk()
                    result = ("return", v)
                except _Return as r:
                    result = ("return", r.value)
                except PyRaise as e:
                    result = ("raise", e)
                except Infeasible:
                    result = None
                if result is not None:
                    self.stats["paths"] += 1
                    if self.stats["paths"] > self.max_paths:
                        raise Unsupported("path budget exceeded")
                    yield result[0], result[1], list(self.path_cond)
            finally:
                self.solver.pop()
            # backtrack
            dec = self.decisions
            while dec and dec[-1][1]:
                dec.pop()
            if not dec:
                return
            last = dec.pop()
            self.prefix = [list(d) for d in dec] + [[not last[0], True]]

    # -- loading repo functions
    def load(self, obj, name=None):
        import hashlib
        src = textwrap.dedent(inspect.getsource(obj))
        tree = ast.parse(src)
        node = tree.body[0]
        fn = inspect.unwrap(obj)
        if isinstance(fn, (staticmethod, classmethod)):
            fn = fn.__func__
        globs = getattr(fn, "__globals__", {})
        pf = PyFunc(name or getattr(obj, "__qualname__", str(obj)), node, globs,
                    hashlib.sha256(src.encode()).hexdigest()[:16])
        self.functions[pf.name] = pf.source_hash
        return pf

    # -- calling
    def call(self, pf, args, kwargs=None):
        kwargs = kwargs or {}
        node = pf.node
        env = {}
        params = [a.arg for a in node.args.args]
        defaults = node.args.defaults
        for i, p in enumerate(params):
            if i < len(args):
                env[p] = args[i]
            elif p in kwargs:
                env[p] = kwargs[p]
            else:
                di = i - (len(params) - len(defaults))
                if di < 0:
                    raise Unsupported("missing argument %s" % p)
                env[p] = self.eval(defaults[di], {}, pf)
        try:
            self.exec_block(node.body, env, pf)
        except _Return as r:
            return r.value
        return None

    # -- statements
    def exec_block(self, stmts, env, pf):
        for st in stmts:
            self.exec_stmt(st, env, pf)

    def exec_stmt(self, st, env, pf):
        if isinstance(st, ast.Expr):
            if isinstance(st.value, ast.Constant) and isinstance(st.value.value, str):
                return  # docstring
            self.eval(st.value, env, pf)
        elif isinstance(st, ast.Assign):
            v = self.eval(st.value, env, pf)
            for t in st.targets:
                self.assign(t, v, env, pf)
        elif isinstance(st, ast.AugAssign):
            cur = self.eval(st.target, env, pf)
            v = self.binop(st.op, cur, self.eval(st.value, env, pf))
            self.assign(st.target, v, env, pf)
        elif isinstance(st, ast.Return):
            raise _Return(self.eval(st.value, env, pf) if st.value is not None else None)
        elif isinstance(st, ast.If):
            if self.truth(self.eval(st.test, env, pf)):
                self.exec_block(st.body, env, pf)
            else:
                self.exec_block(st.orelse, env, pf)
        elif isinstance(st, ast.Raise):
            if st.exc is None:
                raise env["__active_exception__"]
            exc = self.eval(st.exc, env, pf)
            cause = self.eval(st.cause, env, pf) if st.cause is not None else None
            if isinstance(exc, PyRaise):
                exc.cause = cause
                raise exc
            raise Unsupported("raise of %r" % (exc,))
        elif isinstance(st, ast.Try):
            if st.finalbody:
                raise Unsupported("try/finally")
            try:
                self.exec_block(st.body, env, pf)
            except PyRaise as e:
                for h in st.handlers:
                    names = self.handler_names(h)
                    if names is None or any(exc_isinstance(e.etype, n) for n in names):
                        if h.name:
                            env[h.name] = e
                        env["__active_exception__"] = e
                        self.exec_block(h.body, env, pf)
                        return
                raise
            else:
                self.exec_block(st.orelse, env, pf)
        elif isinstance(st, ast.Assert):
            if not self.truth(self.eval(st.test, env, pf)):
                raise PyRaise("AssertionError", "assert")
        elif isinstance(st, ast.For):
            it = self.eval(st.iter, env, pf)
            if isinstance(it, SStr):
                it = [SStr([c]) for c in it.chars]
            if not isinstance(it, (list, tuple, range)):
                raise Unsupported("for over %r" % (it,))
            for item in it:
                self.assign(st.target, item, env, pf)
                self.exec_block(st.body, env, pf)
            self.exec_block(st.orelse, env, pf)
        elif isinstance(st, ast.Pass):
            pass
        else:
            raise Unsupported("statement %s at %s:%s" % (type(st).__name__, pf.name, getattr(st, "lineno", "?")))

    def handler_names(self, h):
        if h.type is None:
            return None
        if isinstance(h.type, ast.Name):
            return [h.type.id]
        if isinstance(h.type, ast.Tuple):
            return [e.id for e in h.type.elts]
        raise Unsupported("except clause")

    def assign(self, target, v, env, pf):
        if isinstance(target, ast.Name):
            env[target.id] = v
        elif isinstance(target, (ast.Tuple, ast.List)):
            if isinstance(v, SStr):
                raise Unsupported("unpack string")
            vals = list(v)
            stars = [i for i, t in enumerate(target.elts) if isinstance(t, ast.Starred)]
            if len(stars) > 1:
                raise Unsupported("two starred targets")
            if stars:
                k = stars[0]
                after = len(target.elts) - k - 1
                if len(vals) < len(target.elts) - 1:
                    raise PyRaise("ValueError", "unpack")
                mid = vals[k:len(vals) - after]
                vals = vals[:k] + [mid] + vals[len(vals) - after:]
            if len(vals) != len(target.elts):
                raise PyRaise("ValueError", "unpack")
            for t, x in zip(target.elts, vals):
                self.assign(t.value if isinstance(t, ast.Starred) else t, x, env, pf)
        elif isinstance(target, ast.Attribute):
            base = self.eval(target.value, env, pf)
            if not isinstance(base, dict):
                raise Unsupported("attribute assignment on %r" % (base,))
            base[target.attr] = v
        elif isinstance(target, ast.Subscript):
            base = self.eval(target.value, env, pf)
            key = self.eval(target.slice, env, pf)
            if not isinstance(base, dict) or not isinstance(key, str):
                raise Unsupported("item assignment on %r" % (base,))
            base[key.upper() if base.get("__caseless__") else key] = v
        else:
            raise Unsupported("assignment target %s" % type(target).__name__)

    # -- truthiness
    def truth(self, v):
        if isinstance(v, bool):
            return v
        if v is None:
            return False
        if isinstance(v, int):
            return v != 0
        if is_sym(v):
            if z3.is_bool(v):
                return self.branch(v)
            return self.branch(v != 0)
        if isinstance(v, str):
            return len(v) > 0
        if isinstance(v, SStr):
            return len(v) > 0
        if isinstance(v, Rope):
            c = v.concrete()
            if c is not None:
                return len(c) > 0
            if any(isinstance(a, Dec) or (isinstance(a, str) and a) for a in v.atoms):
                return True
            return False
        if isinstance(v, (list, tuple)):
            return len(v) > 0
        if isinstance(v, STimedelta):
            return self.branch(z3.Or(to_z3(v.days) != 0, to_z3(v.seconds) != 0))
        if isinstance(v, (SMatch, SDate, STime)):
            return True
        raise Unsupported("truth of %r" % (v,))

    # -- expressions
    def eval(self, node, env, pf):
        m = getattr(self, "e_" + type(node).__name__, None)
        if m is None:
            raise Unsupported("expression %s at %s:%s" % (type(node).__name__, pf.name, getattr(node, "lineno", "?")))
        return m(node, env, pf)

    def e_Constant(self, node, env, pf):
        if isinstance(node.value, bytes):
            return SBytes(node.value.decode("latin-1"))
        return node.value

    def e_Name(self, node, env, pf):
        if node.id in env:
            return env[node.id]
        if node.id in self.models:
            return self.models[node.id]
        if node.id in pf.globs:
            return self.lift_global(pf.globs[node.id], node.id)
        if node.id in EXC_PARENTS or node.id == "Exception":
            return ("exc_class", node.id)
        if node.id in ("int", "str", "len", "abs", "isinstance", "tuple", "range", "min", "max", "bool", "ord", "list"):
            return ("builtin", node.id)
        raise Unsupported("name %s in %s" % (node.id, pf.name))

    def lift_global(self, obj, name):
        if isinstance(obj, re.Pattern):
            return obj
        if isinstance(obj, (int, str, bool, tuple)) or obj is None:
            return obj
        import datetime as _dt
        if obj is _dt.timedelta:
            return ("model", "timedelta")
        if obj is _dt.date:
            return ("model", "date")
        if obj is _dt.datetime:
            return ("model", "datetime")
        if obj is _dt.time:
            return ("model", "time")
        import bisect as _bisect
        if obj is _bisect.bisect_left or obj is _bisect.bisect_right or obj is _bisect.bisect:
            right = obj is not _bisect.bisect_left

            def model(ex_, seq, x, _right=right):
                if not isinstance(seq, (tuple, list)) or not all(isinstance(e, int) for e in seq) or list(seq) != sorted(seq):
                    raise Unsupported("bisect on a non-constant sequence")
                return sum(z3.If((e <= to_z3(x)) if _right else (e < to_z3(x)), 1, 0) for e in seq)
            return BoundModel(model)
        if inspect.isclass(obj):
            return ("class", obj)
        if inspect.isfunction(obj):
            return self.load(obj, name)
        return ("opaque", name, obj)

    models = {}

    def e_Tuple(self, node, env, pf):
        return tuple(self.eval(e, env, pf) for e in node.elts)

    def e_List(self, node, env, pf):
        return [self.eval(e, env, pf) for e in node.elts]

    def _comprehension(self, node, env, pf):
        if len(node.generators) != 1:
            raise Unsupported("nested comprehension")
        comp = node.generators[0]
        it = self.eval(comp.iter, env, pf)
        if isinstance(it, SStr):
            it = [SStr([c]) for c in it.chars]
        if not isinstance(it, (list, tuple, range)):
            raise Unsupported("comprehension over %r" % (it,))
        out = []
        inner = dict(env)
        for item in it:
            self.assign(comp.target, item, inner, pf)
            if all(self.truth(self.eval(c, inner, pf)) for c in comp.ifs):
                out.append(self.eval(node.elt, inner, pf))
        return out

    def e_GeneratorExp(self, node, env, pf):
        return tuple(self._comprehension(node, env, pf))

    def e_ListComp(self, node, env, pf):
        return self._comprehension(node, env, pf)

    def e_Dict(self, node, env, pf):
        out = {}
        for k, v in zip(node.keys, node.values):
            if k is None:
                raise Unsupported("dict unpacking")
            out[self.eval(k, env, pf)] = self.eval(v, env, pf)
        return out

    def e_IfExp(self, node, env, pf):
        if self.truth(self.eval(node.test, env, pf)):
            return self.eval(node.body, env, pf)
        return self.eval(node.orelse, env, pf)

    def e_BoolOp(self, node, env, pf):
        if isinstance(node.op, ast.And):
            v = True
            for e in node.values:
                v = self.eval(e, env, pf)
                if not self.truth(v):
                    return v
            return v
        v = False
        for e in node.values:
            v = self.eval(e, env, pf)
            if self.truth(v):
                return v
        return v

    def e_UnaryOp(self, node, env, pf):
        v = self.eval(node.operand, env, pf)
        if isinstance(node.op, ast.Not):
            return not self.truth(v)
        if isinstance(node.op, ast.USub):
            if isinstance(v, STimedelta):
                return self.td_from_total(-self.td_total(v))
            if isinstance(v, int) or is_sym(v):
                return -v
        raise Unsupported("unary %s on %r" % (type(node.op).__name__, v))

    def e_BinOp(self, node, env, pf):
        return self.binop(node.op, self.eval(node.left, env, pf), self.eval(node.right, env, pf))

    def binop(self, op, a, b):
        if isinstance(op, ast.Add):
            if isinstance(a, (str, Rope, SStr)) or isinstance(b, (str, Rope, SStr)):
                if isinstance(a, str) and isinstance(b, str):
                    return a + b
                if isinstance(a, SStr) and isinstance(b, SStr):
                    return SStr(a.chars + b.chars)
                if isinstance(a, SStr) and isinstance(b, str):
                    return SStr(a.chars + list(b))
                if isinstance(a, str) and isinstance(b, SStr):
                    return SStr(list(a) + b.chars)
                return as_rope(a) + as_rope(b)
            if isinstance(a, SBytes) and isinstance(b, SBytes):
                return SBytes(self.binop(op, a.text, b.text))
            if isinstance(a, STimedelta) and isinstance(b, STimedelta):
                return self.td_from_total(self.td_total(a) + self.td_total(b))
            return a + b
        if isinstance(op, ast.Sub):
            if isinstance(a, STimedelta) and isinstance(b, STimedelta):
                return self.td_from_total(self.td_total(a) - self.td_total(b))
            return a - b
        if isinstance(op, ast.Mult):
            if is_sym(a) and is_sym(b):
                raise Unsupported("symbolic * symbolic")
            return a * b
        if isinstance(op, ast.FloorDiv):
            return self.divmod_const(a, b)[0]
        if isinstance(op, ast.Mod):
            if isinstance(a, str):
                if isinstance(b, tuple):
                    raise Unsupported("% with tuple")
                if a.count("%s") == 1 and a.count("%") == 1:
                    pre, post = a.split("%s")
                    return as_rope(pre) + as_rope(self.to_text(b)) + as_rope(post)
                raise Unsupported("%-format " + a)
            return self.divmod_const(a, b)[1]
        raise Unsupported("binary op %s" % type(op).__name__)

    def divmod_const(self, a, b):
        if isinstance(a, int) and isinstance(b, int):
            if b == 0:
                raise PyRaise("ZeroDivisionError")
            return a // b, a % b
        if not isinstance(b, int) or b <= 0:
            raise Unsupported("division by a non-constant or non-positive divisor")
        q = self.fresh_int("q")
        r = self.fresh_int("r")
        self.assume(to_z3(a) == b * q + r)
        self.assume(z3.And(r >= 0, r < b))
        return q, r

    def e_Compare(self, node, env, pf):
        left = self.eval(node.left, env, pf)
        result = True
        for op, rn in zip(node.ops, node.comparators):
            right = self.eval(rn, env, pf)
            c = self.compare(op, left, right)
            if len(node.ops) == 1:
                return c
            if not self.truth(c):
                return False
            left = right
        return result

    def compare(self, op, a, b):
        if isinstance(op, (ast.Is, ast.IsNot)):
            r = (a is b) or (a is None and b is None)
            if not (a is None or b is None):
                raise Unsupported("is on non-None")
            return r if isinstance(op, ast.Is) else not r
        if isinstance(op, (ast.In, ast.NotIn)):
            r = self.contains(b, a)
            return r if isinstance(op, ast.In) else self.negate(r)
        if isinstance(a, STimedelta) and isinstance(b, STimedelta):
            a, b = self.td_total(a), self.td_total(b)
        if isinstance(a, (SStr, str, Rope)) or isinstance(b, (SStr, str, Rope)):
            if isinstance(op, (ast.Eq, ast.NotEq)):
                r = self.str_eq(a, b)
                return r if isinstance(op, ast.Eq) else self.negate(r)
            raise Unsupported("string ordering")
        if a is None or b is None:
            if isinstance(op, ast.Eq):
                return a is None and b is None
            if isinstance(op, ast.NotEq):
                return not (a is None and b is None)
        table = {ast.Eq: lambda x, y: x == y, ast.NotEq: lambda x, y: x != y, ast.Lt: lambda x, y: x < y,
                 ast.LtE: lambda x, y: x <= y, ast.Gt: lambda x, y: x > y, ast.GtE: lambda x, y: x >= y}
        f = table.get(type(op))
        if f is None:
            raise Unsupported("comparison %s" % type(op).__name__)
        if isinstance(a, tuple) or isinstance(b, tuple):
            raise Unsupported("tuple comparison")
        return f(a, b)

    def negate(self, r):
        if isinstance(r, bool):
            return not r
        return z3.Not(r)

    def str_eq(self, a, b):
        if isinstance(a, Rope):
            a = a.concrete()
        if isinstance(b, Rope):
            b = b.concrete()
        if a is None or b is None:
            if a is None and b is None:
                return True
            if isinstance(a, Rope) or isinstance(b, Rope):
                raise Unsupported("comparison of an unresolved rope")
            return False
        if isinstance(a, str) and isinstance(b, str):
            return a == b
        if not isinstance(a, (str, SStr)) or not isinstance(b, (str, SStr)):
            return False
        ca = a.chars if isinstance(a, SStr) else list(a)
        cb = b.chars if isinstance(b, SStr) else list(b)
        if len(ca) != len(cb):
            return False
        conds = []
        for x, y in zip(ca, cb):
            if isinstance(x, str) and isinstance(y, str):
                if x != y:
                    return False
            elif isinstance(x, SDigit) and isinstance(y, SDigit):
                conds.append(x.v == y.v)
            else:
                d, c = (x, y) if isinstance(x, SDigit) else (y, x)
                if not c.isdigit() or not c.isascii():
                    return False
                conds.append(d.v == int(c))
        if not conds:
            return True
        return z3.And(*conds)

    def contains(self, container, item):
        if isinstance(container, dict):
            if not isinstance(item, str):
                raise Unsupported("dict membership of %r" % (item,))
            return (item.upper() if container.get("__caseless__") else item) in container
        if isinstance(container, (tuple, list)):
            res = []
            for c in container:
                r = self.str_eq(c, item) if isinstance(c, (str, SStr)) or isinstance(item, (str, SStr)) else (c == item)
                if r is True:
                    return True
                if r is not False:
                    res.append(r)
            return z3.Or(*res) if res else False
        if isinstance(container, (str, SStr)):
            cs = container if isinstance(container, str) else None
            if isinstance(container, SStr):
                cs = container.rep()
                if isinstance(item, str) and any(ch.isdigit() for ch in item):
                    raise Unsupported("substring test looking at digits")
            it = item if isinstance(item, str) else (item.concrete() if isinstance(item, SStr) else None)
            if it is None:
                raise Unsupported("symbolic substring test")
            return it in cs
        raise Unsupported("in %r" % (container,))

    def e_JoinedStr(self, node, env, pf):
        out = Rope()
        for v in node.values:
            if isinstance(v, ast.Constant):
                out = out + as_rope(v.value)
            elif isinstance(v, ast.FormattedValue):
                val = self.eval(v.value, env, pf)
                spec = ""
                if v.format_spec is not None:
                    spec = "".join(x.value for x in v.format_spec.values if isinstance(x, ast.Constant))
                if v.conversion not in (-1, 115):
                    # !r etc. only appear in error messages
                    out = out + as_rope("?")
                    continue
                out = out + as_rope(self.format_value(val, spec))
            else:
                raise Unsupported("f-string part")
        c = out.concrete()
        return c if c is not None else out

    def format_value(self, val, spec):
        if isinstance(val, bool):
            raise Unsupported("format bool")
        if isinstance(val, int) or (is_sym(val) and z3.is_int(val)):
            if spec == "":
                return self.to_text(val)
            m = re.fullmatch(r"0(\d+)d?", spec)
            if not m:
                raise Unsupported("format spec %r" % spec)
            return self.int_text(val, int(m.group(1)))
        if spec == "":
            return self.to_text(val)
        raise Unsupported("format %r with %r" % (val, spec))

    def int_text(self, val, width):
        """text of an int (sign handled by a fork)"""
        if isinstance(val, int):
            return format(val, "0%d" % width) if width > 1 else str(val)
        if self.branch(val < 0):
            # Python: '-' counts towards the width
            return Rope(["-", Dec(-val, max(1, width - 1))])
        return Rope([Dec(val, width)])

    def to_text(self, val):
        if isinstance(val, (str, Rope, SStr)):
            return val
        if isinstance(val, bool):
            return "True" if val else "False"
        if isinstance(val, int) or (is_sym(val) and z3.is_int(val)):
            return self.int_text(val, 1)
        if isinstance(val, PyRaise):
            return "<exception>"
        if isinstance(val, (STimedelta, SDate, STime, SBytes, tuple, list)) or val is None:
            return "<repr>"   # only reachable inside error messages
        raise Unsupported("str() of %r" % (val,))

    def e_Subscript(self, node, env, pf):
        v = self.eval(node.value, env, pf)
        sl = node.slice
        if isinstance(v, dict) and not isinstance(sl, ast.Slice):
            key = self.eval(sl, env, pf)
            if isinstance(key, str):
                key = key.upper() if v.get("__caseless__") else key
                if key not in v:
                    raise PyRaise("KeyError", key)
                return v[key]
        if isinstance(sl, ast.Slice):
            lo = self.eval(sl.lower, env, pf) if sl.lower is not None else None
            hi = self.eval(sl.upper, env, pf) if sl.upper is not None else None
            if sl.step is not None:
                raise Unsupported("slice step")
            if not all(x is None or isinstance(x, int) for x in (lo, hi)):
                raise Unsupported("symbolic slice bound")
            if isinstance(v, SStr):
                return SStr(v.chars[lo:hi])
            if isinstance(v, (str, list, tuple)):
                return v[lo:hi]
            raise Unsupported("slice of %r" % (v,))
        idx = self.eval(sl, env, pf)
        if not isinstance(idx, int):
            raise Unsupported("symbolic index")
        try:
            if isinstance(v, SStr):
                return SStr([v.chars[idx]])
            return v[idx]
        except IndexError:
            raise PyRaise("IndexError")

    def e_Attribute(self, node, env, pf):
        v = self.eval(node.value, env, pf)
        a = node.attr
        if isinstance(v, STimedelta) and a in ("days", "seconds"):
            return getattr(v, a)
        if isinstance(v, (SDate, STime)) and a in ("year", "month", "day", "hour", "minute", "second", "tzinfo"):
            if a == "tzinfo":
                return getattr(v, "tz", None)
            if not hasattr(v, a):
                raise PyRaise("AttributeError", a)
            return getattr(v, a)
        if isinstance(v, dict) and a in v:
            return v[a]
        if isinstance(v, tuple) and v and v[0] == "class":
            raw = inspect.getattr_static(v[1], a)
            if isinstance(raw, (int, str, bool, tuple)) or raw is None:
                return raw
        return ("method", v, a)

    def e_Call(self, node, env, pf):
        fn = self.eval(node.func, env, pf)
        args = []
        for a in node.args:
            if isinstance(a, ast.Starred):
                seq = self.eval(a.value, env, pf)
                if not isinstance(seq, (tuple, list)):
                    raise Unsupported("starred non-sequence")
                args.extend(seq)
            else:
                args.append(self.eval(a, env, pf))
        kwargs = {k.arg: self.eval(k.value, env, pf) for k in node.keywords}
        return self.apply(fn, args, kwargs, pf)

    def e_Starred(self, node, env, pf):
        raise Unsupported("starred")

    def apply(self, fn, args, kwargs, pf):
        if isinstance(fn, PyFunc):
            return self.call(fn, args, kwargs)
        if isinstance(fn, BoundModel):
            return fn.fn(self, *args, **kwargs)
        if isinstance(fn, tuple):
            kind = fn[0]
            if kind == "exc_class":
                return PyRaise(fn[1], args[0] if args else "")
            if kind == "builtin":
                return self.builtin(fn[1], args, kwargs)
            if kind == "model":
                return self.construct(fn[1], args, kwargs)
            if kind == "method":
                return self.method(fn[1], fn[2], args, kwargs)
            if kind == "class":
                hook = self.class_hooks.get(fn[1].__name__)
                if hook:
                    return hook(self, fn[1], args, kwargs)
                raise Unsupported("constructing %s" % fn[1].__name__)
        raise Unsupported("call of %r" % (fn,))

    class_hooks = {}

    def builtin(self, name, args, kwargs):
        if name == "len":
            (x,) = args
            if isinstance(x, (SStr, str, list, tuple)):
                return len(x)
            raise Unsupported("len of %r" % (x,))
        if name == "str":
            return self.to_text(args[0])
        if name == "abs":
            (x,) = args
            if isinstance(x, int):
                return abs(x)
            if is_sym(x):
                return -x if self.branch(x < 0) else x
            if isinstance(x, STimedelta):
                t = self.td_total(x)
                return self.td_from_total(-t) if self.branch(t < 0) else x
            raise Unsupported("abs")
        if name == "int":
            (x,) = args
            return self.parse_int(x)
        if name == "isinstance":
            return self.isinstance_(args[0], args[1])
        if name == "tuple":
            return tuple(args[0])
        if name == "range":
            return range(*args)
        if name == "bool":
            return self.truth(args[0])
        if name == "list":
            return list(args[0])
        if name == "ord":
            cp = getattr(args[0], "codepoint", None)
            if cp is None:
                raise Unsupported("ord() of %r" % (args[0],))
            return cp
        if name in ("min", "max") and len(args) == 2 and all(isinstance(a, int) or is_sym(a) for a in args):
            a, b = args
            if isinstance(a, int) and isinstance(b, int):
                return min(a, b) if name == "min" else max(a, b)
            c = to_z3(a) <= to_z3(b)
            return z3.If(c, to_z3(a), to_z3(b)) if name == "min" else z3.If(c, to_z3(b), to_z3(a))
        raise Unsupported("builtin " + name)

    def isinstance_(self, v, cls):
        if isinstance(cls, tuple) and cls and cls[0] not in ("model", "class", "builtin"):
            return any(self.isinstance_(v, c) for c in cls)
        if cls == ("builtin", "str"):
            return isinstance(v, (str, SStr, Rope))
        if cls == ("builtin", "tuple"):
            return isinstance(v, tuple)
        if cls == ("builtin", "int"):
            return isinstance(v, int) or (is_sym(v) and z3.is_int(v))
        if cls == ("model", "timedelta"):
            return isinstance(v, STimedelta)
        if cls == ("model", "datetime"):
            return isinstance(v, SDatetime)
        if cls == ("model", "date"):
            return isinstance(v, SDate)
        if cls == ("model", "time"):
            return isinstance(v, STime)
        if isinstance(cls, tuple) and cls[0] == "class":
            tag = getattr(v, "pyclass", None)
            return tag is not None and issubclass(tag, cls[1])
        if isinstance(cls, dict):
            return False
        if isinstance(cls, type) and cls is bytes:
            return isinstance(v, SBytes)
        raise Unsupported("isinstance against %r" % (cls,))

    def parse_int(self, x):
        """int(text) for a shape string: all characters must be decimal digits (optional sign)"""
        if isinstance(x, int) and not isinstance(x, bool):
            return x
        if is_sym(x):
            return x
        if isinstance(x, str):
            x = SStr.of(x)
        if not isinstance(x, SStr):
            raise Unsupported("int() of %r" % (x,))
        chars = list(x.chars)
        # Python's int() strips whitespace and accepts one sign and underscores between digits
        while chars and isinstance(chars[0], str) and chars[0] in " \t\n\r\f\v":
            chars.pop(0)
        while chars and isinstance(chars[-1], str) and chars[-1] in " \t\n\r\f\v":
            chars.pop()
        sign = 1
        if chars and isinstance(chars[0], str) and chars[0] in "+-":
            sign = -1 if chars[0] == "-" else 1
            chars.pop(0)
        if not chars:
            raise PyRaise("ValueError", "invalid literal for int()")
        total = 0
        prev_us = True
        for c in chars:
            if isinstance(c, SDigit):
                total = total * 10 + c.v
                prev_us = False
            elif c == "_" and not prev_us:
                prev_us = True
            elif c.isascii() and c.isdigit():
                total = total * 10 + int(c)
                prev_us = False
            elif c.isdigit() or c.isdecimal():
                raise Unsupported("non-ASCII digit")
            else:
                raise PyRaise("ValueError", "invalid literal for int()")
        if prev_us:
            raise PyRaise("ValueError", "invalid literal for int()")
        if is_sym(total):
            total = z3.simplify(total)
        return sign * total

    # -- datetime models
    def td_total(self, td):
        if isinstance(td.days, int) and isinstance(td.seconds, int):
            return td.days * 86400 + td.seconds
        return to_z3(td.days) * 86400 + to_z3(td.seconds)

    def td_from_total(self, total):
        if isinstance(total, int):
            d, s = divmod(total, 86400)
            if abs(d) > 999999999:
                raise PyRaise("OverflowError", "days out of range")
            return STimedelta(d, s)
        else:
            total = z3.simplify(total)
            d, s = self.divmod_const(total, 86400)
        over = z3.Or(to_z3(d) > 999999999, to_z3(d) < -999999999)
        if self.branch(over):
            raise PyRaise("OverflowError", "days out of range")
        return STimedelta(d, s)

    def construct(self, name, args, kwargs):
        if name == "timedelta":
            order = ["days", "seconds", "microseconds", "milliseconds", "minutes", "hours", "weeks"]
            vals = dict(zip(order, args))
            vals.update(kwargs)
            for k in ("microseconds", "milliseconds"):
                if vals.get(k, 0) != 0:
                    raise Unsupported("sub-second timedelta")
            total = 0
            for k, mul in (("weeks", 604800), ("days", 86400), ("hours", 3600), ("minutes", 60), ("seconds", 1)):
                v = vals.get(k, 0)
                if isinstance(v, bool) or not (isinstance(v, int) or is_sym(v)):
                    raise PyRaise("TypeError", "unsupported type for timedelta component")
                total = total + v * mul
            return self.td_from_total(total)
        if name == "date":
            if len(args) != 3 or kwargs:
                raise Unsupported("date(...) form")
            self.check_date(*args)
            return SDate(*args)
        if name == "datetime":
            if len(args) < 3:
                raise Unsupported("datetime(...) form")
            vals = list(args) + [0] * (6 - len(args))
            tz = kwargs.get("tzinfo")
            self.check_date(*vals[:3])
            self.check_time(*vals[3:6])
            return SDatetime(*vals[:6], tz=tz)
        if name == "time":
            vals = list(args) + [0] * (3 - len(args))
            self.check_time(*vals[:3])
            return STime(*vals[:3], tz=kwargs.get("tzinfo"))
        raise Unsupported("model " + name)

    def check_date(self, y, m, d):
        y, m, d = to_z3(y), to_z3(m), to_z3(d)
        leap = z3.And(y % 4 == 0, z3.Or(y % 100 != 0, y % 400 == 0))
        dim = z3.If(z3.Or(m == 4, m == 6, m == 9, m == 11), 30, z3.If(m == 2, z3.If(leap, 29, 28), 31))
        ok = z3.And(y >= 1, y <= 9999, m >= 1, m <= 12, d >= 1, d <= dim)
        if not self.branch(ok):
            raise PyRaise("ValueError", "date field out of range")

    def check_time(self, h, mi, s):
        h, mi, s = to_z3(h), to_z3(mi), to_z3(s)
        ok = z3.And(h >= 0, h <= 23, mi >= 0, mi <= 59, s >= 0, s <= 59)
        if not self.branch(ok):
            raise PyRaise("ValueError", "time field out of range")

    # -- methods on modelled values
    def method(self, obj, name, args, kwargs):
        if isinstance(obj, tuple) and obj and obj[0] == "class":
            hook = self.method_hooks.get(obj[1].__name__ + "." + name)
            if hook:
                return hook(self, obj, args, kwargs)
            raw = inspect.getattr_static(obj[1], name)
            if isinstance(raw, staticmethod):
                return self.call(self.load(raw.__func__, obj[1].__name__ + "." + name), args, kwargs)
            if isinstance(raw, classmethod):
                return self.call(self.load(raw.__func__, obj[1].__name__ + "." + name), [obj] + list(args), kwargs)
            raise Unsupported("class attribute %s.%s" % (obj[1].__name__, name))
        if isinstance(obj, re.Pattern) and name in ("match", "fullmatch"):
            (s,) = args
            if isinstance(s, str):
                s = SStr.of(s)
            if isinstance(s, Rope):
                raise Unsupported("regex on an unresolved rope")
            if not isinstance(s, SStr):
                raise PyRaise("TypeError", "expected string")
            if not pattern_digit_uniform(obj):
                raise Unsupported("pattern %r distinguishes decimal digits" % obj.pattern)
            m = getattr(obj, name)(s.rep())
            if m is None:
                return None
            groups = []
            for i in range(1, (obj.groups or 0) + 1):
                a, b = m.span(i)
                groups.append(None if a < 0 else SStr(s.chars[a:b]))
            return SMatch(groups)
        if isinstance(obj, SMatch) and name == "groups":
            return obj.groups()
        if isinstance(obj, dict) and name in ("update", "get", "items", "keys"):
            caseless = obj.get("__caseless__")
            if name == "update":
                for k, v in dict(args[0]).items():
                    if k != "__caseless__":
                        obj[k.upper() if caseless else k] = v
                return None
            if name == "get":
                k = args[0].upper() if caseless else args[0]
                return obj.get(k, args[1] if len(args) > 1 else None)
            if name == "items":
                return [(k, v) for k, v in obj.items() if k != "__caseless__"]
            return [k for k in obj if k != "__caseless__"]
        if type(obj) is list and name == "append":
            obj.append(args[0])
            return None
        if isinstance(obj, (str, SStr, Rope)):
            return self.str_method(obj, name, args, kwargs)
        if isinstance(obj, SBytes):
            if name == "decode":
                return obj.text
            raise Unsupported("bytes." + name)
        if isinstance(obj, SDatetime) and name == "replace":
            return SDatetime(obj.year, obj.month, obj.day, obj.hour, obj.minute, obj.second, tz=kwargs.get("tzinfo", obj.tz))
        if isinstance(obj, (STime, SDate)) and name == "strftime":
            # model of C strftime for the numeric directives; %Y is padded to 4 digits or not at all
            # depending on the platform's libc - measured here on the running interpreter
            import datetime as _dt
            ywidth = len(_dt.date(5, 1, 1).strftime("%Y"))
            fmt = args[0]
            if not isinstance(fmt, str):
                raise Unsupported("strftime format")
            atoms = []
            i = 0
            while i < len(fmt):
                if fmt[i] == "%" and i + 1 < len(fmt):
                    d = fmt[i + 1]
                    field = {"Y": "year", "m": "month", "d": "day", "H": "hour", "M": "minute", "S": "second"}.get(d)
                    if field is None or not hasattr(obj, field):
                        raise Unsupported("strftime directive %" + d)
                    atoms.append(Dec(getattr(obj, field), ywidth if d == "Y" else 2))
                    i += 2
                else:
                    atoms.append(fmt[i])
                    i += 1
            return Rope(atoms)
        hook = self.method_hooks.get(name)
        if hook:
            return hook(self, obj, args, kwargs)
        raise Unsupported("method %s on %r" % (name, obj))

    method_hooks = {}

    def str_method(self, s, name, args, kwargs):
        if name == "encode":
            return SBytes(s)
        if name == "upper":
            if isinstance(s, str):
                return s.upper()
            if isinstance(s, SStr):
                return SStr([c.upper() if isinstance(c, str) else c for c in s.chars])
        if name == "startswith":
            (p,) = args
            ps = p if isinstance(p, tuple) else (p,)
            src = s if isinstance(s, str) else s.rep() if isinstance(s, SStr) else None
            if src is None or any(any(ch.isdigit() for ch in x) for x in ps):
                raise Unsupported("startswith on digits / rope")
            return src.startswith(tuple(ps))
        if name == "split":
            (sep,) = args if args else (None,)
            if sep is None or any(ch.isdigit() for ch in sep):
                raise Unsupported("split separator")
            if isinstance(s, str):
                return [x for x in s.split(sep)]
            if isinstance(s, SStr):
                if len(sep) != 1:
                    raise Unsupported("split with long separator on shape string")
                out, cur = [], []
                for c in s.chars:
                    if c == sep:
                        out.append(SStr(cur))
                        cur = []
                    else:
                        cur.append(c)
                out.append(SStr(cur))
                return out
        if name == "isdigit":
            if isinstance(s, str):
                return s.isdigit()
            if isinstance(s, SStr):
                return len(s) > 0 and all(isinstance(c, SDigit) or c.isdigit() for c in s.chars)
        if name == "decode":
            return s
        raise Unsupported("str.%s" % name)


# ----------------------------------------------------------------------------------------------
# shapes: fixing the digit count of every Dec atom of a rope

def rope_shapes(ex, rope, max_digits=10):
    """Yield (SStr, constraints) for every feasible assignment of digit counts to the Dec atoms of
    `rope` under the executor's current solver state.  Each rendered number gets FRESH digit
    variables tied to it by a linear constraint (no div/mod towers)."""
    rope = as_rope(rope)
    if rope.lossy:
        raise Unsupported("a value was built from a symbolic shape string")
    decs = [a for a in rope.atoms if isinstance(a, Dec)]

    def rec(i, chosen, cons):
        if i == len(decs):
            chars = []
            k = 0
            for a in rope.atoms:
                if isinstance(a, str):
                    chars.extend(a)
                else:
                    chars.extend(chosen[k])
                    k += 1
            yield SStr(chars), cons
            return
        d = decs[i]
        term = to_z3(d.term)
        for n in range(max(1, d.width), max_digits + 1):
            digits = [SDigit(ex.fresh_int("d")) for _ in range(n)]
            c = [z3.And(x.v >= 0, x.v <= 9) for x in digits]
            val = sum(x.v * (10 ** (n - 1 - j)) for j, x in enumerate(digits))
            c.append(term == val)
            if n > d.width:
                c.append(digits[0].v >= 1)     # no superfluous leading zero beyond the padding width
            if str(ex.check(*(cons + c))) == "sat":
                yield from rec(i + 1, chosen + [digits], cons + c)
    yield from rec(0, [], [])
