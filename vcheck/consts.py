"""Constants shared by harness modules and property specs (no imports of icalendar here)."""
C16_OPS = ["set_start", "set_end", "set_DTSTART", "set_END", "set_DURATION", "del_DTSTART", "del_END",
           "del_DURATION", "start_None", "end_None", "DURATION_None"]
C17_OPS = ["getitem", "setitem", "delitem", "contains", "get", "pop", "pop_default", "setdefault",
           "update_dict", "update_pairs", "update_kwargs", "copy", "eq", "eq_mapping", "or", "ior",
           "ctor_mapping", "ctor_pairs", "ctor_kwargs", "has_key", "iter_len"]
