"""Constants shared by harness modules and property specs (no imports of icalendar here)."""
C16_OPS = ["set_start", "set_end", "set_DTSTART", "set_END", "set_DURATION", "del_DTSTART", "del_END",
           "del_DURATION", "start_None", "end_None", "DURATION_None"]
