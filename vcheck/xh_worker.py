"""Run ONE CrossHair condition in-process and print a JSON verdict on the last stdout line.

usage: python -m vcheck.xh_worker <harness_file.py> <function_name> <per_condition_timeout> [per_path_timeout]

This is `crosshair check --report_all` for a single function, through CrossHair's own API, plus
statistics that the CLI only prints in (slow) verbose mode: the path tree's leaf statistics, the
number of iterations (paths attempted), the number of SMT branch decisions and whether the search
space was exhausted.

Verdicts:
  confirmed  - "Confirmed over all paths": the path tree was exhausted and every leaf confirmed
  refuted    - a counterexample message (postcondition false or exception); 'call' holds the call
  unknown    - "Not confirmed" (timeout / unexplored paths / solver unknown)
  pre_unsat  - "Unable to meet precondition"
  error      - syntax / import / internal error
"""
import importlib.util
import json
import os
import sys
import time


def main():
    path, fn_name, cond_timeout = sys.argv[1], sys.argv[2], float(sys.argv[3])
    path_timeout = float(sys.argv[4]) if len(sys.argv) > 4 and sys.argv[4] != "-" else None
    os.environ["VCHECK_SYMBOLIC"] = "1"
    out = {"file": path, "fn": fn_name, "verdict": "error", "messages": []}
    t0 = time.time()
    c0 = time.process_time()
    try:
        import crosshair.core as core
        import crosshair.statespace as statespace
        from crosshair.core_and_libs import (MessageType, analyze_function,
                                             run_checkables)
        from crosshair.options import AnalysisKind, AnalysisOptionSet
        from crosshair.fnutil import FunctionInfo
        from crosshair.pure_importer import prefer_pure_python_imports

        roots = []

        class RecRoot(statespace.RootNode):
            def __init__(self, *a, **k):
                super().__init__(*a, **k)
                roots.append(self)

        core.RootNode = RecRoot

        counters = {"smt_decisions": 0, "realizations": 0}
        orig_choose = statespace.StateSpace.choose_possible

        def counting_choose(self, expr, probability_true=None):
            counters["smt_decisions"] += 1
            return orig_choose(self, expr, probability_true)

        statespace.StateSpace.choose_possible = counting_choose

        # Search-heuristic switch (no effect on soundness): CrossHair may "prematurely realize" an
        # argument as an UNCONSTRAINED concrete value when earlier paths realized it anyway.  With
        # bounded selector arguments this only produces precondition failures and an un-exhaustible
        # parallel branch, so the harness arguments always stay symbolic.
        orig_fork_parallel = statespace.StateSpace.fork_parallel

        def fork_parallel(self, false_probability, desc=""):
            if desc.startswith("premature realize"):
                return False
            return orig_fork_parallel(self, false_probability, desc)

        statespace.StateSpace.fork_parallel = fork_parallel

        with prefer_pure_python_imports():
            spec = importlib.util.spec_from_file_location(
                "vharness_" + os.path.splitext(os.path.basename(path))[0], path)
            mod = importlib.util.module_from_spec(spec)
            sys.modules[spec.name] = mod
            spec.loader.exec_module(mod)
            fn = getattr(mod, fn_name)
            options = AnalysisOptionSet(
                analysis_kind=[AnalysisKind.PEP316],
                per_condition_timeout=cond_timeout,
                per_path_timeout=path_timeout,
                report_all=True,
                max_uninteresting_iterations=sys.maxsize,
            )
            checkables = analyze_function(FunctionInfo.from_fn(fn), options)
            if not checkables:
                out["messages"].append("no checkable condition found")
            excluded = json.loads(os.environ.get("VCHECK_EXCLUDE") or "[]")
            if excluded:
                # Inputs whose counterexample did not reproduce on the real code (engine infidelity)
                # are excluded so that the search can go on to a *different*, reproducing violation.
                # The runner never turns such a run into a pass: at best it becomes a replayed
                # violation, otherwise the condition stays inconclusive.
                import ast
                import dataclasses
                import inspect
                from crosshair.condition_parser import ConditionExpr, ConditionExprType
                params = list(inspect.signature(fn).parameters)
                tuples = []
                for call in excluded:
                    node = ast.parse(call, mode="eval").body
                    tuples.append(tuple(ast.literal_eval(a) for a in node.args))

                def not_excluded(bindings, _tuples=tuples, _params=params):
                    for tup in _tuples:
                        if all(bindings[p_] == v_ for p_, v_ in zip(_params, tup)):
                            return False
                    return True
                new_checkables = []
                for c in checkables:
                    conds = c.conditions
                    extra = ConditionExpr(ConditionExprType.PRECONDITION, not_excluded,
                                          conds.post[0].filename, conds.post[0].line, "not excluded")
                    conds = dataclasses.replace(conds, pre=list(conds.pre) + [extra])
                    new_checkables.append(dataclasses.replace(c, conditions=conds))
                checkables = new_checkables
            msgs = list(run_checkables(checkables))
        verdicts = []
        for m in msgs:
            state = m.state
            out["messages"].append({"state": state.name, "message": m.message,
                                    "line": m.line})
            if state == MessageType.CONFIRMED:
                verdicts.append("confirmed")
            elif state == MessageType.CANNOT_CONFIRM:
                verdicts.append("unknown")
            elif state == MessageType.PRE_UNSAT:
                verdicts.append("pre_unsat")
            elif state in (MessageType.POST_FAIL, MessageType.EXEC_ERR, MessageType.POST_ERR):
                verdicts.append("refuted")
                if " when calling " in m.message:
                    call = m.message.split(" when calling ", 1)[1]
                    if " (which returns " in call:
                        call = call.rsplit(" (which returns ", 1)[0]
                    out["call"] = call
                    out["what"] = m.message.split(" when calling ", 1)[0]
            else:
                verdicts.append("error")
        for v in ("error", "refuted", "pre_unsat", "unknown", "confirmed"):
            if v in verdicts:
                out["verdict"] = v
                break
        if roots:
            st = roots[-1].stats()
            out["leaf_stats"] = {(k.name if hasattr(k, "name") else str(k)): v
                                 for k, v in dict(st).items()}
            try:
                out["exhausted"] = bool(roots[-1].child.exhausted)
            except Exception:
                out["exhausted"] = None
        out["smt_decisions"] = counters["smt_decisions"]
        for c in checkables:
            st = getattr(getattr(c, "options", None), "stats", None)
            if st:
                out["paths"] = int(st.get("num_paths", 0))
    except BaseException as e:  # the worker must always emit a JSON line
        import traceback
        out["verdict"] = "error"
        out["messages"].append("worker exception: " + repr(e))
        out["traceback"] = traceback.format_exc()[-3000:]
    out["wall_s"] = round(time.time() - t0, 3)
    out["cpu_s"] = round(time.process_time() - c0, 3)
    sys.stdout.write("\nVCHECK_JSON " + json.dumps(out) + "\n")
    sys.stdout.flush()


if __name__ == "__main__":
    main()
