"""Run one Engine-S condition: python -m vcheck.s_worker <module> <fn> <tier> <seed> <timeout>
   or replay a counterexample: python -m vcheck.s_worker --replay <module> <fn> '<json cex>'"""
import importlib
import json
import signal
import sys
import time
import traceback


def emit(d):
    sys.stdout.write("\nVCHECK_JSON " + json.dumps(d, default=str) + "\n")
    sys.stdout.flush()


def main(argv):
    if argv[0] == "--replay":
        mod = importlib.import_module("vcheck.smt." + argv[1])
        ok = getattr(mod, "replay_" + argv[2])(json.loads(argv[3]))
        emit({"outcome": "reproduced" if ok else "not_reproduced"})
        return
    modname, fn, tier, seed, timeout = argv[0], argv[1], argv[2], int(argv[3]), float(argv[4])
    t0 = time.time()

    def on_alarm(signum, frame):
        raise TimeoutError("engine S condition timed out")
    signal.signal(signal.SIGALRM, on_alarm)
    signal.alarm(int(timeout))
    try:
        mod = importlib.import_module("vcheck.smt." + modname)
        res = getattr(mod, fn)(tier, seed)
    except TimeoutError as e:
        res = {"verdict": "unknown", "messages": [str(e)]}
    except Exception as e:
        res = {"verdict": "error" if type(e).__name__ != "Unsupported" else "unknown",
               "messages": [repr(e), traceback.format_exc()[-2500:]]}
    res["wall_s"] = round(time.time() - t0, 2)
    emit(res)


if __name__ == "__main__":
    main(sys.argv[1:])
