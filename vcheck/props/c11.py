from vcheck.runner import S, X, shards

ENGINE = "pyz3+crosshair-z3"
TECHNIQUE = ("Engine S: forking symbolic execution of vDatetime.to_ical/from_ical and vDDDTypes.__init__ from their AST with all six wall-clock fields symbolic and an opaque zone (z3 unsat = holds for every wall time); "
             "CrossHair/z3: path-exhaustive execution of the real providers over tables of zones x wall times x shapes; counterexamples replayed concretely")
FUNCTIONS = ["icalendar.prop.vDatetime.to_ical/from_ical", "icalendar.prop.vDDDTypes.__init__", "icalendar.prop.vDDDLists.__init__", "icalendar.prop.vPeriod.__init__",
             "icalendar.timezone.tzid.tzid_from_dt/tzid_from_tzinfo/tzids_from_tzinfo", "icalendar.timezone.tzp.TZP.timezone/clean_timezone_id/localize/localize_utc",
             "icalendar.timezone.zoneinfo.ZONEINFO.localize/localize_utc/timezone", "icalendar.timezone.pytz.PYTZ.localize/localize_utc/timezone",
             "icalendar.cal.Component.add (UTC forcing)", "icalendar.cal.create_utc_property", "icalendar.cal.Component.from_ical (TZID routing)"]
EXPLANATION = ("Engine S proves for ALL wall-clock field values (years 1..9999, leap rule, every second) that a zoned date-time is "
               "written with the same six fields and TZID = the zone key and read back with the same fields and that zone attached, "
               "and that vDDDTypes derives the right VALUE/TZID parameters for every value kind - with the zone as an opaque stub. "
               "CrossHair then runs the real providers over symbolic selectors of 10 IANA zones (incl. zero-offset non-UTC zones, "
               "30/45-minute offsets, Etc/*) x 12 wall times (gaps, folds, transition seconds, 1950, 2037) x single / list / period "
               "x zoneinfo / pytz tzinfo sources x both providers, and the UTC-mandated properties through add() and setters.")
ASSUMPTIONS = [
    "NOT CLAIMED: the tz database itself - which offset a provider assigns to a wall time is data interpreted by C code (zoneinfo) or third-party tables (pytz, dateutil); the claim is: given the provider's own answer for the wall time, icalendar preserves wall time, key and therefore that offset",
    "Engine S hooks (contracts): tzid_from_dt(dt) = zone key / 'UTC' / None; tzp.timezone(key) = the provider's zone for key; tzp.localize(dt, tz) keeps the wall fields and attaches tz; Parameters = caseless dict",
    "real-zone part: 10 zones x 12 wall times (a finite table); zone ids ~600 and all wall times 1900-2100 are not enumerated",
    "dateutil tzinfo objects: wall time only (the statement's own restriction)",
    "pytz PROVIDER: the wall times of the table that do not exist in their zone (spring-forward gaps, Apia's skipped day) are excluded - inside pytz.localize CrossHair's traced datetime arithmetic was measured to diverge from CPython for non-existent times (non-reproducing counterexamples); they stay covered under the zoneinfo provider",
]
CONDITIONS = [
    S("zoned-fields", "c11", "c11_zoned_fields", timeout=300, what="zoned date-time: same six fields + TZID=key out, same fields + zone in", bound="all date-times 0001..9999 to the second; opaque zone stub, 3 keys"),
    S("ddd-params", "c11", "c11_ddd_params", timeout=300, what="vDDDTypes VALUE/TZID derivation per value kind", bound="8 value kinds, fields symbolic"),
    X("dateutil-wall", "c11.py", "h_dateutil_wall", timeout=300, samples=10, what="dateutil tzinfo: wall time kept", bound="10 zones x 12 wall times"),
    X("utc-marker", "c11.py", "h_utc_marker", timeout=300, samples=10, what="UTC: Z suffix, no TZID, as single / list / period; zoneinfo, pytz and dateutil UTC objects", bound="12 wall times x 3 shapes x 3 sources"),
    X("tzid-selection", "c11.py", "h_tzid_selection", timeout=100, what="tzid_from_tzinfo attribute shapes (.key, .zone, both, none)", bound="4 shapes x 4 keys"),
    X("provider-lookup", "c11.py", "h_provider_lookup", timeout=300, samples=10, what="TZP.timezone: id cleaning, Windows names, unknown id -> None; both providers", bound="6 ids x 3 decorations x 2 providers"),
] + [X("zoned", "c11.py", "h_zoned", timeout=400, samples=10, params={"z": z, "pytz_provider": pz},
       tiers=("quick", "thorough") if (not pz or z in (0, 2, 5, 7)) else ("thorough",),
           what="real zones: written wall fields + TZID=key; parsed wall time, zone id and the provider's offset for that wall time", bound="12 wall times x single/list/period start/explicit period end x zoneinfo/pytz tzinfo source")
     for z in range(10) for pz in (False, True)
] + [X("utc-property", "c11.py", "h_utc_property", timeout=600, samples=10, params={"p": p, "pytz_provider": pz},
       tiers=("quick", "thorough") if (not pz or p in (0, 3)) else ("thorough",),
           what="DTSTAMP/CREATED/LAST-MODIFIED/ACKNOWLEDGED via add() and setter: same instant in UTC, Z suffix, no TZID; floating taken as UTC", bound="10 zones + floating x 12 wall times x 2 tzinfo sources")
     for p in (0, 1, 2, 3) for pz in (False, True)]
