from vcheck.runner import X, shards

FUNCTIONS = ["icalendar.cal.Calendar.get_used_tzids", "icalendar.cal.Calendar.get_missing_tzids",
             "icalendar.cal.Calendar.add_missing_timezones", "icalendar.cal.Calendar.timezones",
             "icalendar.cal.Timezone.tz_name", "icalendar.cal.Timezone.from_tzid", "icalendar.cal.Component.property_items",
             "icalendar.cal.Component.walk", "icalendar.timezone.tzp.TZP.timezone / clean_timezone_id"]
EXPLANATION = ("CrossHair (z3) execution of the real Calendar queries over a symbolic structure vector: a TZID choice for each of "
               "four property slots at nesting depths 1..4 (single value, two entries of one multi-valued name, a deep "
               "RECURRENCE-ID), and for each of four zone ids how many VTIMEZONEs are already present (used, unused, "
               "duplicated, unknown), before or after the event.")
ASSUMPTIONS = [
    "stub (symbolic runs only): Timezone.from_tzinfo returns a minimal VTIMEZONE whose TZID is the id it was asked for (its documented contract; content is property C13); Timezone.from_tzid and TZP.timezone run for real",
    "tz ids from a pool of 5 (none, two IANA ids, an id unknown to the provider, an id with a leading slash that the provider resolves); zoneinfo provider",
    "a finite configuration space, exhausted path by path",
]
_QUICK = [(0, 0, 0, 0), (1, 0, 0, 0), (2, 0, 0, 0), (0, 1, 1, 0), (1, 0, 1, 1), (0, 0, 0, 1)]
# (each present VTIMEZONE adds a set.discard, and CrossHair's lazy set combinators cost ~2^depth: at most 2 in total in the thorough sweep, 3 in the quick configurations)
_ALL = [(a, b, c, d) for a in (0, 1, 2) for b in (0, 1, 2) for c in (0, 1, 2) for d in (0, 1) if a + b + c + d <= 2]
_W = "used == set of TZID params; missing == used - present; no query fails; add_missing_timezones closes exactly the known ids once; idempotent"
_B = "slot tz choices: DTSTART 5 (pinned per shard), two RDATE entries 3 each, deep RECURRENCE-ID 3 (incl. unknown id and leading-slash id); VTIMEZONE counts per id (Vienna, New_York, unused Tokyo, unknown) = %s"


def _mk(cfgs, tiers):
    out = []
    for cfg in cfgs:
        for t1 in range(5):
            for vt_first in ((True, False) if "thorough" in tiers else ((t1 + sum(cfg)) % 2 == 0,)):
                out.append(X("closure", "c18.py", "h_closure", timeout=400, tiers=tiers, what=_W, bound=_B % (cfg,),
                             params={"n0": cfg[0], "n1": cfg[1], "n2": cfg[2], "n3": cfg[3], "t1": t1, "vt_first": vt_first}))
    return out


CONDITIONS = _mk(_QUICK, ("quick",)) + _mk(_ALL, ("thorough",)) + [
    X("freebusy-exdate", "c18.py", "h_freebusy", timeout=200, what="PERIOD values of FREEBUSY (two entries) and EXDATE lists are discovered", bound="3 tz choices per slot"),
]
