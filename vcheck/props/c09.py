from vcheck.runner import X, shards

FUNCTIONS = ["icalendar.parser_tools.to_unicode", "icalendar.parser.Contentlines.from_ical", "icalendar.parser.uFOLD / NEWLINE",
             "icalendar.cal.Component.from_ical", "icalendar.caselessdict.CaselessDict lookups", "icalendar.cal.component_factory",
             "icalendar.timezone.tzp.TZP.cache_timezone_component/timezone", "value decoders reached by the seed calendars"]
EXPLANATION = ("CrossHair (z3): the RFC-insignificant rewrites are symbolic parameters - line ending per line (mask), BOM, "
               "str/bytes, one extra fold at a symbolic line and symbolic character position with SP or TAB, 0-2 trailing blank "
               "lines, and upper/lower/mixed case of BEGIN/END + component names, of property names, or of parameter names - "
               "applied to three concrete seed calendars (zoned values, multi-octet text, an unknown component, FREEBUSY period "
               "lists, a custom VTIMEZONE); the parsed tree (incl. UTC offsets of zoned values) and its re-serialisation must "
               "equal those of the canonical text, under both providers.")
ASSUMPTIONS = [
    "the calendars are three concrete seeds; what is symbolic is the rewrite vector ('every well-formed text' is not reachable)",
    "one extra fold per run, in any line of the seed, after the first character / in the middle / before the last character; folds are not combined with the case rewrites; fold positions inside a multi-octet character do not exist at str level",
    "line-ending masks: all CRLF, all LF, alternating, and one mixed pattern",
    "case rewrites are applied to one name category at a time (keywords+component names / property names / parameter names), in lower and alternating case",
]
CONDITIONS = [X("rewrite", "c09.py", "h_rewrite", timeout=400, samples=6,
                params={"seed": s, "what": w, "mode": m, "pytz_provider": pz},
                what="tree (with offsets) and re-serialisation equal those of the canonical text",
                bound="seed %d, case rewrite target %d in mode %d, provider %s; symbolic line-ending pattern (4), BOM, str/bytes, 0-2 trailing blank lines" % (s, w, m, "pytz" if pz else "zoneinfo"),
                tiers=("quick", "thorough") if (not pz and m != 2) or (w, m) == (2, 1) else ("thorough",))
              for s in (0, 1, 2) for (w, m) in ((0, 0), (1, 1), (1, 2), (2, 1), (2, 2), (3, 1), (3, 2)) for pz in (False, True)] + [
    X("fold", "c09.py", "h_fold", timeout=600, samples=6, params={"seed": s, "fold_ws": ws, "pytz_provider": pz, "where": wh},
      what="one extra fold in any line at the start / middle / end of the line", bound="seed %d, %s, position class %d, provider %s; any of the seed's lines, CRLF or LF" % (s, "TAB" if ws else "SP", wh, "pytz" if pz else "zoneinfo"),
      tiers=("quick", "thorough") if not pz else ("thorough",))
    for s in (0, 1, 2) for ws in (0, 1) for wh in (0, 1, 2) for pz in (False, True)]
