from vcheck.runner import X, shards

FUNCTIONS = ["icalendar.alarms.Alarms.%s" % m for m in ("add_component", "add_alarm", "set_start", "set_end", "_add", "_repeat",
             "_alarm_time", "_get_absolute_alarm_times", "_get_start_alarm_times", "_get_end_alarm_times", "times")] + [
    "icalendar.cal.Alarm.TRIGGER", "icalendar.cal.Alarm.TRIGGER_RELATED", "icalendar.cal.Alarm.REPEAT", "icalendar.cal.Alarm.DURATION",
    "icalendar.cal.Alarm.triggers", "icalendar.cal.Event.start/end", "icalendar.cal.Todo.start/end",
    "icalendar.tools.to_datetime", "icalendar.tools.normalize_pytz", "icalendar.tools.is_date"]
EXPLANATION = ("CrossHair (z3) symbolic execution of the real Event/Todo + Alarm + Alarms code; start, end, trigger, duration "
               "are symbolic whole seconds inside January 2020; the oracle is anchor + TRIGGER + k*DURATION over integers.")
ASSUMPTIONS = [
    "component built through the API (setters, add_component); the parsed-from-text route shares Alarms/Alarm code and is covered for values by C03/C01",
    "DATE, floating and UTC starts; zoned starts across a DST change are not executed (a real zone realizes every value; cross-tz arithmetic is enumerated by CrossHair)",
    "stub: ZONEINFO.utc replaced by datetime.timezone(timedelta(0),'UTC') during symbolic runs; only the zoneinfo provider",
    "REPEAT <= 2, triggers within +-2 days, DURATION <= 1 day, end within 2 days of the start",
    "a REPEAT with a zero DURATION is treated as no repeat (the code's `if repeat and duration`), which yields the same set of instants",
]
_G = {"kind": [0, 1], "sk": [0, 1, 2, 3], "endmode": [0, 1, 2], "related": [0, 1, 2]}
CONDITIONS = (
    shards("relative", "c14.py", "h_relative", dict(_G, rep=[1]), timeout=300, tiers=("quick",),
           what="one relative alarm: anchor (start | end = DTEND/DUE | start+DURATION | RFC default) + TRIGGER + k*DURATION; Alarm.triggers; only documented incomplete-information errors",
           bound="start any second of 10 Jan (DATE/floating/UTC/absent), end < 12 h later (thorough: 1 day), trigger +-2 days, REPEAT=1 (k=0 and k=1 terms), DURATION<=1 day")
    + shards("relative", "c14.py", "h_relative", dict(_G, rep=[0, 1, 2]), timeout=900, tiers=("thorough",),
             what="one relative alarm: anchor + TRIGGER + k*DURATION; Alarm.triggers; only documented errors",
             bound="as quick, REPEAT<=2")
    + shards("absolute", "c14.py", "h_absolute", {"kind": [0, 1], "sk": [0, 1, 2, 3], "rep": [2]}, timeout=300,
             what="absolute UTC trigger and its repeats regardless of the component's times",
             bound="trigger any second of 1..20 Jan, REPEAT<=2, DURATION<=1 day")
    + [X("duplicates", "c14.py", "h_duplicates", timeout=300, what="2-3 alarms with identical (or nearly identical) content each contribute their own times", bound="floating/UTC start any second, trigger +-1 day")]
    + [X("no-trigger", "c14.py", "h_no_trigger", timeout=200, what="alarm without TRIGGER contributes nothing", bound="REPEAT<=2, DURATION<=1 day")]
    + shards("pair", "c14.py", "h_pair", {"kind": [0, 1], "sk": [2, 3], "rel": [0, 1, 2]}, timeout=300,
             what="one relative + one absolute alarm on one component: exactly the two alarms' own times, attributed to the right alarm",
             bound="trigger +-1 day, explicit end < 1 day after start, absolute trigger any second of 1..20 Jan")
)
