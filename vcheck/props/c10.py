from vcheck.runner import X, shards

FUNCTIONS = ["icalendar.cal.Component.to_ical", "icalendar.cal.Component.content_lines", "icalendar.cal.Component.content_line",
             "icalendar.cal.Component.property_items", "icalendar.caselessdict.CaselessDict.sorted_keys",
             "icalendar.caselessdict.canonsort_keys", "icalendar.parser.Parameters.to_ical", "icalendar.parser.Contentline.from_parts",
             "icalendar.parser.Contentlines.to_ical", "icalendar.prop.vDatetime.to_ical", "icalendar.prop.vDDDTypes.to_ical",
             "icalendar.prop.vRecur.to_ical", "icalendar.prop.vCategory.to_ical"]
EXPLANATION = ("CrossHair (z3): the insertion history of <=4 distinct properties (chosen from 8 typed properties with up to 3 "
               "parameters each) is a symbolic permutation; serialisation with sorting on must not depend on it, with sorting "
               "off must reproduce it at every nesting level; every run serialises twice and compares a deep snapshot.")
ASSUMPTIONS = [
    "hash seed: there is no symbolic handle on PYTHONHASHSEED; the clause is decided as agreement of the bytes with a hash-free model rendering (lists and sorted() only) on a tree with repeated and multi-valued parameter entries, list-valued RRULE parts and categories, with one registered condition per PYTHONHASHSEED in {0, 1, 2, 4242}; all other conditions run with PYTHONHASHSEED=0",
    "<= 4 distinct properties out of a pool of 8 (text, zoned date-time, uid, X- with 3 params, attendee with 3 params, rrule, duration, categories); Event and Todo; optional two nested alarms",
    "parameter order independence is exercised through the 3-parameter properties of the pool (Component.add stores the parameter dict in the given order; Parameters.to_ical sorts) and in C08 order",
    "values are concrete; the permutation and the selection are symbolic",
]
CONDITIONS = (
    [X("perm", "c10.py", "h_perm", timeout=900, params={"n": n, "a": a},
       what="sorted: bytes independent of insertion order; unsorted: exact insertion order; twice identical; snapshot unchanged; balanced BEGIN/END",
       bound="every subset of %d of the 8 pool properties with smallest index %d (looped), symbolic permutation, nested alarms on/off, Event/Todo" % (n, a),
       tiers=("quick", "thorough") if (n <= 2 or (n == 3 and a >= 3)) else ("thorough",))
     for n in (1, 2, 3) for a in range(0, 9 - n)]
    + [X("perm", "c10.py", "h_perm", timeout=3000, params={"n": 4, "a": a, "kind": kind, "nested": nested}, tiers=("thorough",),
         what="sorted: bytes independent of insertion order; unsorted: exact insertion order; twice identical; snapshot unchanged; balanced",
         bound="every subset of 4 of the 8 pool properties with smallest index %d (looped), all 24 permutations, kind %d, nested %s" % (a, kind, nested))
       for a in range(0, 5) for kind in (0, 1) for nested in (False, True)]
    + [X("nested-unsorted", "c10.py", "h_nested_unsorted", timeout=200, what="sorted=False reaches nested components; subcomponents keep insertion order", bound="3! x 3! insertion orders of a VEVENT and its VALARM inside a VCALENDAR"),
       X("repeats", "c10.py", "h_repeats", timeout=100, what="repeated properties of one name keep insertion order", bound="3 repeats, all orders, both flags"),
       *[X("hashseed[%d]" % hs, "c10.py", "h_hashseed", timeout=700, env={"PYTHONHASHSEED": str(hs)},
           what="bytes equal a hash-free model rendering under PYTHONHASHSEED=%d: multi-valued parameters with repeated entries in symbolic order, symbolic parameter insertion order" % hs,
           bound="3^3 MEMBER x 2^2 DELEGATED-TO selections x 6 parameter insertion orders") for hs in (0, 1, 2, 4242)],
       X("datetime-pure", "c10.py", "h_datetime_pure", timeout=100, what="vDatetime.to_ical TZID side effect is idempotent and invisible in the bytes", bound="floating / UTC / zoned")]
)
