from vcheck.runner import X, shards

FUNCTIONS = ["icalendar.cal.Component.walk", "icalendar.cal.Component._walk", "icalendar.cal.Calendar.events",
             "icalendar.cal.Calendar.todos", "icalendar.cal.Calendar.timezones", "icalendar.cal.Component.__eq__",
             "icalendar.cal.Component.copy", "icalendar.caselessdict.CaselessDict.__eq__/__ne__",
             "icalendar.prop.TimeBase.__eq__", "icalendar.prop.vDDDLists.__eq__", "icalendar.prop.vCategory.__eq__",
             "icalendar.prop.vGeo.__eq__", "icalendar.prop.vRecur (CaselessDict equality)",
             "icalendar.timezone.zoneinfo pickle support (exercised natively)"]
EXPLANATION = ("CrossHair (z3) execution of the real traversal and equality code over symbolic tree shapes (parent vector, "
               "kind per node) and symbolic selectors of kinds/values/child multisets; each feasible configuration is a path "
               "closed by the solver.")
ASSUMPTIONS = [
    "trees of at most 5 nodes (every parent vector), 4 component kinds incl. an unknown X- name and same-kind nesting; depth <= 4",
    "equality: kinds {VEVENT, VTODO, X-A}, one property with 3 possible states, child multisets of <= 3 from 3 child types, one grandchild difference",
    "deepcopy/pickle/serialise+parse run natively on each path (C code is exercised, not analysed): that clause is a solver-enumerated finite exploration over 10 value kinds",
    "comparison with non-components: None, 0, {}, a str, a list",
]
_PV = [{"n": n, "p2": p2, "p3": p3, "p4": p4} for n in (1, 2, 3, 4, 5) for p2 in (0, 1) for p3 in (0, 1, 2) for p4 in (0, 1, 2, 3)
       if (n >= 3 or p2 == 0) and (n >= 4 or p3 == 0) and (n >= 5 or p4 == 0)]
CONDITIONS = [X("walk", "c20.py", "h_walk", params=pv, timeout=300,
                what="walk()/walk(name any case)/walk(select)/events/todos/timezones == (filtered) pre-order, each node once",
                bound="this parent vector; 4 symbolic kinds per node; 11 query names (looped); root Calendar or VEVENT",
                tiers=("quick", "thorough") if pv["n"] <= 4 else ("thorough",)) for pv in _PV] + [
    X("eq-root", "c20.py", "h_eq_root", timeout=200, what="reflexive, symmetric, kind- and value-sensitive, case/order-insensitive; False (no exception) for non-components", bound="3 kinds x 3 value states on both sides x 5 non-components"),
] + shards("eq-children", "c20.py", "h_eq_children", {"na": [0, 1, 2, 3], "nb": [0, 1, 2, 3]}, timeout=200,
           what="equal iff multisets of subcomponents agree; symmetric", bound="<=3 children each from 3 child types") + [
    X("eq-deep", "c20.py", "h_eq_deep", timeout=300, what="depth-3 trees: same-named siblings with identical properties and differently ordered children compare equal; a leaf difference is seen", bound="all child-order flips at two levels x 3 second-sibling variants"),
    X("eq-nested", "c20.py", "h_eq_nested", timeout=200, what="a grandchild difference is seen at the root wherever the branch stands", bound="3 child types, depth 2-3, both sibling orders"),
] + shards("copies", "c20.py", "h_copies", {"v1": list(range(10))}, timeout=300,
           what="deepcopy / pickle / serialise+parse copies are equal both ways and serialise identically",
           bound="3 component kinds x 10x10 value kinds x nested alarm or not x 3 copy methods")
