from vcheck.runner import X, shards
from vcheck import consts as _h
_h.OPS = _h.C16_OPS

FUNCTIONS = [
    "icalendar.cal.create_single_property (p_get/p_set/p_del incl. exclusive group)", "icalendar.cal._get_duration",
    "icalendar.cal._set_duration", "icalendar.cal._del_duration", "icalendar.cal.Event._get_start_end_duration",
    "icalendar.cal.Event.start/end/duration (+setters)", "icalendar.cal.Todo._get_start_end_duration",
    "icalendar.cal.Todo.start/end/duration (+setters)", "icalendar.cal.Journal.start/end/duration",
    "icalendar.prop.vDDDTypes.__init__", "icalendar.prop.vDuration.__init__",
]
EXPLANATION = ("CrossHair (z3) symbolic execution of the real Event/Todo/Journal classes: ONE mutator from an arbitrary "
               "stored pre-state satisfying the invariant (inductive step => histories of any length), plus forbidden "
               "stored combinations and wrong argument types.")
ASSUMPTIONS = [
    "induction: every state reachable through the setters/deleters satisfies 'not both end and DURATION'; pre-states are built with add(..., encode=0) exactly as Component.from_ical stores parsed properties",
    "values: DATE / floating / UTC on 1..3 January 2020 at any second; DURATION 0..2 days + any seconds; zoned (non-UTC) values are not executed (cross-tz datetime arithmetic is enumerated value-by-value by CrossHair)",
    "start and end (and the new argument) are either both floating or both UTC when both are date-times: mixed floating/aware subtraction raises TypeError in the datetime library; the statement does not list that state, so it is outside the claim",
    "stub: ZONEINFO.utc replaced by datetime.timezone(timedelta(0),'UTC') during symbolic runs",
]
CONDITIONS = shards("step", "c16.py", "h_step", {"comp": [0, 1], "op": list(range(len(_h.OPS)))}, timeout=300,
                    what="one mutator (%s) from an arbitrary valid stored state: exclusivity + identities + only documented errors" % ", ".join(_h.OPS),
                    bound="values on 3 days x 86400 s, 3 value kinds + absent; DURATION <=2d+86399s") + \
    shards("step-pool", "c16.py", "h_step_pool", {"comp": [0, 1], "op": [0, 1, 2, 3, 4, 5, 6, 7]}, timeout=400, samples=10,
           what="the same step with concrete boundary values (pool of seconds incl. 1440, 7200, 43200), so that float / modulo arithmetic in the code is executed, not solved",
           bound="8 second values x 3 day values x value kinds; 8 mutators x Event/Todo") + [
    *shards("step-zoned", "c16.py", "h_step_zoned", {"comp": [0, 1], "op": [0, 1, 2, 3, 4, 5, 6, 7]}, timeout=600,
            what="the step with real zoned values across a daylight-saving transition (Europe/Berlin, 2024-03-31) in the stored start, stored end or argument",
            bound="kinds date/floating/UTC/zoned x noon of 3 days around the transition x 4 durations (0, 1 h, 1 d, 1 d 1 h); 8 mutators x Event/Todo"),
    X("forbidden", "c16.py", "h_forbidden", timeout=200, what="stored end AND DURATION: start/end/duration raise exactly InvalidCalendar", bound="same value ranges"),
    X("types", "c16.py", "h_types", timeout=100, what="wrong argument type => TypeError, component unchanged", bound="5 setters x 3 wrong kinds x Event/Todo"),
    X("journal", "c16.py", "h_journal", timeout=100, what="Journal: start == end == DTSTART, duration 0, missing start => IncompleteComponent", bound="same value ranges"),
]
