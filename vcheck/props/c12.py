from vcheck.runner import X, shards

FUNCTIONS = ["icalendar.cal.Timezone.get_transitions", "icalendar.cal.Timezone._extract_offsets", "icalendar.cal.Timezone.tz_name",
             "icalendar.cal.TimezoneStandard/TimezoneDaylight.DTSTART/TZOFFSETFROM/TZOFFSETTO", "icalendar.timezone.pytz.PYTZ.create_timezone",
             "pytz.tzinfo.DstTzInfo (fromutc/utcoffset/tzname/dst on the generated class)",
             "icalendar.cal.Component.from_ical (END:VTIMEZONE caching)", "icalendar.timezone.tzp.TZP.cache_timezone_component/timezone"]
EXPLANATION = ("CrossHair (z3) over the real Timezone / pytz provider: 1-3 single-onset observances whose kind, local onset hour, "
               "TZOFFSETFROM and TZOFFSETTO are symbolic selectors; the UTC transition table must be sorted and equal onset = "
               "local - TZOFFSETFROM, and the generated pytz zone must report, at -1s/0/+1s around every onset, the data of the "
               "observance with the latest onset not after the instant (reference computed in the harness).")
ASSUMPTIONS = [
    "NOT CLAIMED: RRULE expansion (dateutil.rrule) and the zoneinfo provider's interpretation through dateutil.tz.tzical - third-party iterators with horizon-dependent loops - hence also not 'the two conversions agree'",
    "single-onset observances on one day; local onset hour 0..1 (thorough 0..2), TZOFFSETFROM -1..1 h (thorough -2..2), TZOFFSETTO = FROM + {0,1} (thorough -1..1); 1-2 observances with and without TZNAME (thorough: also 3 named observances with hours 0..1, TZOFFSETFROM -1..1, the first at hour 0, only the third changing the offset)",
    "instants: every onset -1 s, 0, +1 s (from the first onset on); configurations in which two observances have the same UTC onset are skipped for the instant check (the statement's 'latest onset' is then not unique)",
    "a VTIMEZONE without any STANDARD observance is outside the statement (DST delta undefined) and skipped",
    "the cache/ordering clause (definition from the same calendar wherever it stands, whatever was parsed before) is exercised by the cache condition on both providers with concrete calendars; the known design limits are listed as known findings",
]
_W = "transition table = sorted (local - TZOFFSETFROM), TZOFFSETTO/TZNAME/zero STANDARD DST per entry; pytz zone answers at -1s/0/+1s around each onset"
CONDITIONS = [X("transitions", "c12.py", "h_transitions", timeout=400, thorough_timeout=3000, what=_W,
                bound="n=%d observances; first: kind %d, hour %d, TZOFFSETFROM %+d; others symbolic; TZNAME %s" % (n, k1, h1, f1, "present" if named else "absent"),
                params={"n": n, "k1": k1, "h1": h1, "f1": f1, "named": named},
                tiers=("quick", "thorough") if n <= 2 else ("thorough",))
              for n in (1, 2, 3) for k1 in (0, 1) for h1 in (0, 1) for f1 in (-1, 0, 1) for named in (True, False)
              if not (n == 1 and (not named or h1 == 1)) and not (n == 3 and (not named or h1 == 1))] + [
] + shards("cache", "c12.py", "h_cache", {"pytz_provider": [False, True], "third": [False, True]}, timeout=300, what="sequences of 2-3 parsed calendars with custom TZIDs: each DTSTART gets the offset of its own calendar's VTIMEZONE", bound="2 custom ids (one with a leading slash) x offsets +1..+3 h x both providers; minus known findings C12-K1/K2")
