from vcheck.runner import X, shards

FUNCTIONS = ["icalendar.parser.Contentline.from_parts", "icalendar.parser.Contentline.parts", "icalendar.parser.Contentline.__new__",
             "icalendar.parser.Parameters.to_ical/from_ical", "icalendar.parser.dquote", "icalendar.parser.param_value",
             "icalendar.parser.q_split", "icalendar.parser.validate_token", "icalendar.parser.validate_param_value",
             "icalendar.prop.vText/vUri/vCalAddress/vInline codecs", "icalendar.cal.Component.add/to_ical/from_ical"]
EXPLANATION = ("CrossHair (z3): a parameter value and a property value over the delimiter/escape alphabet (backslash ; : , DQUOTE "
               "% 2 C = CR LF SP letters) are joined by the real from_parts and split by the real parts for TEXT, URI, CAL-ADDRESS "
               "and inline values; a focused injection condition reads whole components back and checks that no component, "
               "property or parameter appears that was not put in.")
ASSUMPTIONS = [
    "names are concrete RFC tokens (X-NAME, X-P): the \\w name mask is not decided symbolically (C01 note)",
    "round trip: parameter value <= 2 and value <= 3 characters over a 14-character alphabet; injection: value <= 4 characters over the 7-character alphabet  \" ; : = , a backslash  with 5 parameter values containing a DQUOTE / a fake parameter",
    "a DQUOTE inside a parameter value is replaced by an apostrophe on output (documented): such values are only required not to change the structure",
    "known findings excluded by their classifiers: C08-K1 (parameter values with backslash / %XX codes), C05-K1 (non-TEXT values with backslash-escapes are decoded by parts())",
]
_RT_WHAT = "from_parts -> parts: refused (raw LF) / rejected (ValueError) / exactly the same name, one parameter, value text decoding to the value; parts() is a function of the line text alone (editing the returned parameters does not change a later split)"
_INJ_WHAT = "component read back has exactly VCALENDAR > VEVENT > {UID, X-NAME[X-P]} or the X-NAME line alone is dropped"
CONDITIONS = (
    shards("roundtrip", "c05.py", "h_roundtrip", {"kind": [0, 1, 2, 3], "p0": list(range(16))}, timeout=300, tiers=("quick",), what=_RT_WHAT,
           bound="TEXT, URI, CAL-ADDRESS and inline values; parameter value <= 1 char (pinned per shard), value <= 2 chars, 16-char alphabet")
    + shards("roundtrip", "c05.py", "h_roundtrip", {"kind": [0], "p0": list(range(8))}, timeout=3000, tiers=("thorough",), what=_RT_WHAT,
             bound="TEXT values; parameter value one of the first 8 alphabet characters (backslash ; : , DQUOTE % 2 C; pinned per shard), value <= 3 chars, 16-char alphabet")
    + shards("roundtrip", "c05.py", "h_roundtrip", {"kind": [1], "p0": [0, 1, 2, 3]}, timeout=3000, tiers=("thorough",), what=_RT_WHAT,
             bound="URI values; parameter value backslash / ; / : / , (pinned per shard), value <= 3 chars, 16-char alphabet")
    + shards("inject", "c05.py", "h_inject", {"kind": [0, 1], "pq": [0, 1, 2, 3, 4]}, timeout=300, tiers=("quick",), what=_INJ_WHAT,
             bound="value <= 3 chars over {\" ; : = , a backslash}; parameter value pinned per shard")
    + shards("inject", "c05.py", "h_inject", {"kind": [0], "pq": [0, 3, 4]}, timeout=3000, tiers=("thorough",), what=_INJ_WHAT,
             bound="TEXT value <= 4 chars over {\" ; : = , a backslash}; parameter value DQUOTE / a / ;b=c")
    + shards("inject", "c05.py", "h_inject", {"kind": [1], "pq": [0]}, timeout=3000, tiers=("thorough",), what=_INJ_WHAT,
             bound="URI value <= 4 chars over {\" ; : = , a backslash}; parameter value DQUOTE")
)
