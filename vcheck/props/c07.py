from vcheck.runner import X, shards

FUNCTIONS = ["icalendar.parser.escape_char", "icalendar.parser.unescape_char", "icalendar.prop.vText.to_ical",
             "icalendar.prop.vText.from_ical", "icalendar.prop.vCategory.__init__/to_ical/from_ical/__iter__",
             "icalendar.cal.Component.add/to_ical/from_ical", "icalendar.parser.Contentline.from_parts/parts",
             "icalendar.parser.foldline", "icalendar.parser.Contentlines.to_ical/from_ical"]
EXPLANATION = ("CrossHair (z3) symbolic execution of the TEXT codec kernels on fully symbolic Unicode strings (all strings up "
               "to the length bound), and of the real vText / vCategory / Event routes on every string over the critical "
               "alphabet up to length 3 (values are realized there because the real classes subclass str).")
ASSUMPTIONS = [
    "kernels: every Unicode string of length <= 3 (quick) / <= 4 (thorough); longer strings are outside the claim (the codec is a composition of local rewrites of window 2)",
    "routes through str subclasses and the parser: strings over the 16-character critical alphabet  \\ n N ; , : \" % 2 C CR LF SP a  up to length 3",
    "documented normalisations applied by the oracle: literal backslash-N -> LF, CRLF -> LF",
    "CrossHair's models of str.replace / re.sub on symbolic strings are trusted; guarded by concrete re-execution on sampled inputs",
]
CONDITIONS = [
    X("codec", "c07.py", "h_codec", timeout=400, thorough_timeout=6000, what="unescape_char(escape_char(s)) == norm(s)", bound="all Unicode strings, len <= 3 (thorough 4)"),
    X("encoded-form", "c07.py", "h_encoded_form", timeout=300, thorough_timeout=4000, what="no raw LF; every ; and , preceded by an odd run of backslashes", bound="all Unicode strings, len <= 3 (thorough 4)"),
    X("category-codec", "c07.py", "h_category_codec", timeout=400, thorough_timeout=4000, what="list codec with symbolic items (commas, semicolons, backslashes inside items)", bound="1-2 items, all Unicode strings of len <= 2"),
] + shards("vtext-class", "c07.py", "h_vtext", {"c0": list(range(16))}, timeout=200,
           what="real vText(s).to_ical()/from_ical (bytes and str input)", bound="critical alphabet, len <= 3, first character pinned per shard"
) + shards("as-property", "c07.py", "h_property", {"c0": list(range(16))}, timeout=300, thorough_timeout=1500,
           what="Event.add('summary', s) -> to_ical -> from_ical returns norm(s); other property intact; second round byte-stable", bound="critical alphabet, len <= 3"
) + shards("category-class", "c07.py", "h_category_real", {"c0": list(range(16))}, timeout=300,
           what="real vCategory([x, y]): to_ical / from_ical / iteration", bound="critical alphabet, |x| <= 2, |y| <= 1")
