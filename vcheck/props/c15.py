from vcheck.runner import X, shards

FUNCTIONS = [
    "icalendar.alarms.AlarmTime.acknowledged", "icalendar.alarms.AlarmTime.is_active",
    "icalendar.alarms.AlarmTime.trigger", "icalendar.alarms.Alarms.add_component",
    "icalendar.alarms.Alarms.add_alarm", "icalendar.alarms.Alarms.times", "icalendar.alarms.Alarms.active",
    "icalendar.alarms.Alarms._alarm_time", "icalendar.alarms.Alarms._repeat", "icalendar.alarms.Alarms._add",
    "icalendar.alarms.Alarms.acknowledge_until", "icalendar.alarms.Alarms.snooze_until",
    "icalendar.cal.create_utc_property (ACKNOWLEDGED, DTSTAMP, X-MOZ-LASTACK, X-MOZ-SNOOZE-TIME)",
    "icalendar.cal.Component.add", "icalendar.cal.Component.is_thunderbird",
]
EXPLANATION = ("CrossHair (z3) symbolic execution of the real AlarmTime/Alarms code; every instant is a "
               "symbolic second of 2020-01-01, each optional, so all orderings incl. equality are covered.")
ASSUMPTIONS = [
    "stub: ZONEINFO.utc replaced by datetime.timezone(timedelta(0),'UTC') during symbolic runs (C ZoneInfo rejects CrossHair datetimes); replay and concrete validation use the real ZoneInfo",
    "instants restricted to one calendar day, whole seconds; the code only compares instants",
    "CrossHair's models of datetime/timedelta comparison are trusted; guarded by concrete re-execution of every harness on sampled inputs",
    "only the zoneinfo provider is executed symbolically",
]
_B = "all 86400 seconds of one day for each instant; each of ack/component-ack/snooze optional"
CONDITIONS = [
    X("kernel-table", "c15.py", "h_kernel", timeout=120, what="is_active == decision table; acknowledged == max; trigger == later of trigger/snooze", bound=_B),
    X("monotone", "c15.py", "h_monotone", timeout=240, what="moving an acknowledgement later never activates", bound=_B),
    X("floating", "c15.py", "h_floating", timeout=120, what="floating trigger: only LocalTimezoneMissing, only when the trigger comparison is needed", bound=_B),
] + shards("local-unset", "c15.py", "h_local", {"isdate": [False, True], "setlocal": [False]}, timeout=120,
    what="DATE-valued / floating start through Event.alarms, no local zone: only LocalTimezoneMissing, only when an aware comparison is needed",
    bound="start second 3600..80000 or a DATE; acks/snooze any second"
) + shards("local-set", "c15.py", "h_local_set", {"isdate": [False, True], "off": [-12, 0, 14]}, timeout=200, tiers=("quick",),
    what="DATE-valued / floating start, local zone set: table evaluated at wall time - offset",
    bound="fixed-offset local zone in {-12h, 0, +14h}; start a DATE or second 40000..40001; acknowledgement within +-1 s of the converted trigger (finite window, enumerated)"
) + shards("local-set", "c15.py", "h_local_set", {"isdate": [False, True], "off": list(range(-12, 15))}, timeout=300, tiers=("thorough",),
    what="DATE-valued / floating start, local zone set: table evaluated at wall time - offset",
    bound="every whole-hour fixed-offset local zone -12h..+14h; start a DATE or second 40000..40001; acknowledgement within +-1 s of the converted trigger (finite window, enumerated)"
) + shards("wiring", "c15.py", "h_wiring", {"kind": [0, 1], "how": [0, 1], "rep": [0, 1]}, timeout=300,
    what="Event/Todo DTSTAMP / X-MOZ-* wiring; active is the table-selected sub-list of times",
    bound="start<40000s, trigger<=1h, REPEAT<=1, DURATION<=1h, acks/snooze any second of the day"
) + shards("wiring", "c15.py", "h_wiring", {"kind": [0, 1], "how": [0, 1], "rep": [2]}, timeout=900, tiers=("thorough",),
    what="Event/Todo DTSTAMP / X-MOZ-* wiring; active is the table-selected sub-list of times",
    bound="start<40000s, trigger<=1h, REPEAT=2, DURATION<=1h, acks/snooze any second of the day")
