from vcheck.runner import X, shards

FUNCTIONS = ["icalendar.cal.Component.from_ical", "icalendar.cal.Component.to_ical", "icalendar.cal.Component.content_lines",
             "icalendar.cal.Component.property_items", "icalendar.cal.Component.add", "icalendar.parser.Contentlines.from_ical/to_ical",
             "icalendar.parser.Contentline.parts/from_parts", "icalendar.parser.Parameters.from_ical/to_ical",
             "icalendar.prop.TypesFactory.for_property", "icalendar.prop.vDDDTypes/vDDDLists/vPeriod/vDuration/vDate/vDatetime/vUTCOffset/vInt/vGeo/vRecur/vBinary/vText/vCategory/vUri/vCalAddress codecs"]
EXPLANATION = ("CrossHair (z3): structured inputs - (a) one or two typed property lines selected symbolically from a pool of 50 "
               "boundary texts, in a lenient, a strict, a nested and an unknown component; (b) raw strings over the delimiter "
               "alphabet as value / unquoted parameter / quoted parameter of text, uri, cal-address and list properties; (c) a "
               "symbolic vector of BEGIN/END/property line kinds.  Whenever from_ical accepts the text: parse(serialise(tree)) "
               "== tree (names, parameters, typed values) and serialise is byte-stable.")
ASSUMPTIONS = [
    "arbitrary whole files are out of reach of the engine (about one realized path per second): inputs are structured as stated; property and component names are concrete tokens",
    "typed values come from a pool (dates of the years 0001 / 0753 / 9999, signed and zero durations, list values, lower-case names, quoted parameters); value ranges are property C03's subject",
    "raw strings: <= 3 characters over the 13-character alphabet  backslash ; : , DQUOTE % 2 C = SP TAB a N",
    "the clause 'for well-formed input the first parse recovers exactly what the text denotes' is decided for typed values by C03 (decode direction) and for TEXT by C07; here only stability is asserted; known finding C01-K1 (same root as C05-K1): URI / CAL-ADDRESS values that still hold a backslash escape after one decoding are not stable and are excluded by the classifier kf_nontext_twice (exact on all strings <= 4 chars over the alphabet); raw parameter values containing a backslash are excluded (known finding C08-K1: a decoded trailing backslash swallows the next delimiter on re-parse)",
]
CONDITIONS = (
    shards("typed", "c01.py", "h_typed", {"container": [0, 1, 2, 3], "second": [False]}, timeout=400,
           what="one typed line from the pool in VEVENT / VTODO / nested STANDARD / unknown component: stable", bound="50 pool lines")
    + shards("typed-pair", "c01.py", "h_typed", {"container": [0, 1], "second": [True]}, timeout=3000, tiers=("thorough",),
             what="two typed lines (incl. the same name twice)", bound="50 x 50 pool lines")
    + shards("broken", "c01.py", "h_broken", {"container": [0, 1, 3]}, timeout=400, thorough_timeout=2000,
             what="a malformed line next to a good one: dropped+stable in VEVENT, ValueError elsewhere", bound="12 malformed x 10 (thorough 50) pool lines")
    + shards("raw", "c01.py", "h_raw", {"name": [0, 2, 4], "where": [0, 1, 2]}, timeout=600, thorough_timeout=4000,
             what="raw delimiter-alphabet string as value / unquoted / quoted parameter value: stable", bound="<= 2 (thorough 3) chars over 13-char alphabet")
    + shards("raw", "c01.py", "h_raw", {"name": [1, 3, 5], "where": [0, 1, 2]}, timeout=4000, tiers=("thorough",),
             what="raw delimiter-alphabet string as value / unquoted / quoted parameter value: stable", bound="<= 3 chars over 13-char alphabet")
    + [X("skeleton", "c01.py", "h_skeleton", timeout=600, params={"m": m, "k0": k0},
         what="BEGIN/END/property line-kind vector: every accepted text is stable (single and multiple=True)",
         bound="%d lines, first kind pinned (%d), 13 line kinds" % (m, k0))
       for m in (2, 3) for k0 in (0, 1, 2, 3)]
    + [X("skeleton", "c01.py", "h_skeleton", timeout=900, params={"m": m, "k0": k0, "k1": k1}, tiers=("thorough",),
         what="BEGIN/END/property line-kind vector: every accepted text is stable (single and multiple=True)",
         bound="%d lines, first two kinds pinned (%d,%d), 13 line kinds" % (m, k0, k1))
       for m in (4,) for k0 in (0, 1, 2, 3) for k1 in range(13)]
)
