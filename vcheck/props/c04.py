from vcheck.runner import S, X, shards

ENGINE = "crosshair-z3+pyz3"
TECHNIQUE = ("Engine S: forking symbolic execution of every value decoder's own AST over near-grammar shape strings with symbolic digits (z3): no path raises anything but ValueError; "
             "CrossHair/z3: path-exhaustive execution of Component.from_ical on structured hostile inputs under both providers; counterexamples replayed concretely")
FUNCTIONS = ["icalendar.cal.Component.from_ical (error routing)", "icalendar.cal.Component.to_ical/walk", "icalendar.prop.vPeriod.__init__",
             "icalendar.timezone.tzp.TZP.timezone/cache_timezone_component", "icalendar.timezone.zoneinfo.ZONEINFO.timezone",
             "icalendar.timezone.pytz.PYTZ.timezone/create_timezone", "icalendar.cal.Timezone.to_tz/get_transitions/_extract_offsets"]
EXPLANATION = ("Engine S: on every path of every date/time/duration/period/offset decoder's AST, for all-digit and near-grammar shape "
               "strings with symbolic digits, the only exception type is ValueError.  CrossHair: a pool of 66 malformed / hostile "
               "property lines at a symbolic position in a lenient VEVENT and a strict VTODO (isolation, exactly one error entry, "
               "everything else identical), pairs of VTIMEZONE malformedness flags, and BEGIN/END line-kind vectors - under both "
               "providers - raise nothing but ValueError, also while serialising and walking the result.")
ASSUMPTIONS = [
    "NOT CLAIMED: arbitrary byte soup / mutated real calendars (no symbolic handle at ~1 realized path per second), CPU-time bounds, nesting depth 64; inputs are the structured families stated in the bounds",
    "decoder shapes: lengths 0..17 (thorough 0..19), one special character from {T Z + - / P} (thorough + W x SP H S) at every position, every digit symbolic",
    "Engine S trusted base: vcheck/pyz3.py models (date/time constructors raise ValueError out of range; timedelta raises OverflowError beyond 999999999 days; int() raises ValueError on non-digits); tzp.localize / localize_utc are contract hooks",
    "hostile TZID lookups go through the REAL zoneinfo / pytz providers (file system access included) for the pool lines",
]
CONDITIONS = [
    S("decoders", "c04", "c04_decoders", timeout=900, thorough_timeout=3000, what="every value decoder: any exception on any path is ValueError", bound="8 decoders x all-digit and near-grammar shapes (see assumptions)"),
] + [X("isolation", "c04.py", "h_isolation", timeout=600, samples=10, params={"pytz_provider": pz, "chunk": ch},
       what="malformed line in VEVENT is dropped alone (1 error entry, rest identical); in VTODO => ValueError; nothing else is ever raised",
       bound="pool lines %d..%d x 5 positions, provider %s" % (ch * 10, ch * 10 + 9, "pytz" if pz else "zoneinfo"))
     for pz in (False, True) for ch in range(7)
] + shards("vtimezone", "c04.py", "h_vtimezone", {"f1": list(range(14)), "pytz_provider": [False, True]}, timeout=600, samples=10,
           what="malformed VTIMEZONE definitions (pairs of flags), optionally used by an event: result or ValueError", bound="14 flags, all pairs with the pinned first flag"
) + [X("skeleton", "c04.py", "h_skeleton", timeout=600 if m <= 3 else 2400, samples=10, params={"m": m, "k0": k0},
       what="BEGIN/END/VTIMEZONE-fragment line vectors: result or ValueError; result serialises and walks",
       bound="%d lines, first kind %d, 15 line kinds, single and multiple" % (m, k0), tiers=("quick", "thorough") if m <= 3 else ("thorough",))
     for m in (2, 3, 4) for k0 in (0, 1, 2, 3, 12)]
