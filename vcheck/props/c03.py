from vcheck.runner import S, X, shards

ENGINE = "pyz3+crosshair-z3"
TECHNIQUE = ("Engine S: forking symbolic execution of the codec functions' own AST (read from /repo on every run) with z3 - "
             "integers symbolic over their full ranges, texts as shape strings with symbolic digits; unsat = holds for all values; "
             "plus CrossHair for the enumerated types")
FUNCTIONS = ["icalendar.prop.vBoolean", "icalendar.prop.vWeekday", "icalendar.prop.vFrequency", "icalendar.prop.vMonth",
             "icalendar.prop.vBinary", "icalendar.prop.vGeo", "icalendar.prop.vFloat"]
EXPLANATION = ("Engine S proves, for ALL values of the type's domain, decode(encode(x)) == x and the RFC grammar of the text "
               "(DATE 0001-9999 with the leap rule, every second of the day, every whole-second timedelta up to +-999999999 days, "
               "every UTC offset |o| < 24 h, ints up to 10 digits), and for ALL texts of each grammar shape that the decoder "
               "returns the RFC value or ValueError exactly when the value is out of the Python range; CrossHair covers the "
               "enumerated types.")
ASSUMPTIONS = [
    "trusted base of Engine S: vcheck/pyz3.py (the AST interpreter and its models of int()/str()/f-string padding, timedelta normalisation and overflow, date/time field validation, re matching on digit-uniform patterns); validated on every run by pushing concrete vectors through the interpreter and the real functions (translator validation)",
    "environment contracts (hooks): tzid_from_dt(dt) = None / 'UTC' / zone key; tzp.localize_utc and tzp.localize keep the wall fields",
    "microseconds are 0; numbers in texts have at most 10 (thorough 11) digits",
    "NOT CLAIMED: numeric fidelity of FLOAT / GEO (CPython float repr/parse in C; only the 'lat;lon' structure and exact binary fractions are exercised); URI and CAL-ADDRESS are identity codecs",
    "known finding C03-K1: TIME texts with a trailing Z decode to a naive time (UTC marker dropped) - TIME shapes with Z are not in the decode condition",
]
CONDITIONS = [
    S("duration-roundtrip", "c03", "c03_duration_roundtrip", timeout=600, what="from_ical(to_ical(td)) == td and dur-value grammar", bound="all whole-second timedeltas, |days| <= 999999999"),
    S("duration-decode", "c03", "c03_duration_decode", timeout=900, what="every dur-value text -> RFC value, ValueError iff out of range", bound="42 sign/form combinations, numbers of 1 or 10 digits (thorough 1,3,10,11)"),
    S("date-roundtrip", "c03", "c03_date_roundtrip", timeout=300, what="vDate round trip, 8-digit grammar", bound="all dates 0001-01-01..9999-12-31"),
    S("datetime-roundtrip", "c03", "c03_datetime_roundtrip", timeout=300, what="vDatetime floating / UTC round trip and grammar", bound="all date-times to the second"),
    S("time-roundtrip", "c03", "c03_time_roundtrip", timeout=300, what="vTime round trip and grammar", bound="all 86400 seconds"),
    S("utcoffset-roundtrip", "c03", "c03_utcoffset_roundtrip", timeout=300, what="vUTCOffset round trip and grammar (sign, optional seconds)", bound="all offsets of whole seconds, |o| < 24 h"),
    S("int-roundtrip", "c03", "c03_int_roundtrip", timeout=300, what="vInt round trip and grammar", bound="|n| < 10^10"),
    S("dispatch", "c03", "c03_dispatch", timeout=600, what="vDDDTypes.from_ical classifies DATE / DATE-TIME / DURATION / PERIOD texts and returns the RFC value; invalid fields => ValueError", bound="all digit values of each fixed-width shape; 42 duration forms with 2-digit numbers; 4 period forms"),
    X("boolean", "c03.py", "h_boolean", timeout=100, what="BOOLEAN codec, case-insensitive decode", bound="2 values x 3 casings"),
    X("weekday-invalid", "c03.py", "h_weekday_invalid", timeout=100, what="invalid weekday texts => ValueError", bound="6 texts"),
    X("frequency", "c03.py", "h_frequency", timeout=100, what="frequency codec", bound="7 x 3 casings"),
    X("month", "c03.py", "h_month", timeout=100, what="month codec incl. leap suffix", bound="1..13 x leap x int/str"),
    X("binary", "c03.py", "h_binary", timeout=200, what="BINARY base64 codec", bound="81 UTF-8 payloads incl. multi-octet, NUL, LF"),
    X("geo-structure", "c03.py", "h_geo_structure", timeout=300, what="GEO = FLOAT;FLOAT, FLOAT round trip", bound="9 x 9 exact binary fractions within +-90 / +-180, both signs"),
] + shards("weekday", "c03.py", "h_weekday", {"day": list(range(7))}, timeout=200, what="weekday codec: sign x ordinal x day x case", bound="3 signs x ordinals 0..53 x 2 casings")
