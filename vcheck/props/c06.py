from vcheck.runner import S, X, shards

ENGINE = "pyz3+crosshair-z3"
TECHNIQUE = ("Engine S: inductive step of foldline's per-character loop and arithmetic of the ASCII fast path, both taken from the "
             "function's AST on every run, decided by z3 for characters of every UTF-8 width and lines of every length; "
             "CrossHair: whole fold/unfold pipeline on symbolic strings at small limits and real-limit content lines")
FUNCTIONS = ["icalendar.parser.foldline", "icalendar.parser.Contentline.to_ical", "icalendar.parser.Contentline.from_ical",
             "icalendar.parser.Contentlines.to_ical", "icalendar.parser.Contentlines.from_ical", "icalendar.parser.uFOLD"]
EXPLANATION = ("The 75-octet budget and whole-character folding are proved for every line length by an inductive invariant over "
               "one iteration of the real loop body (symbolic byte_count, symbolic width 1..4) and by z3 arithmetic over the "
               "real slice/range expressions of the ASCII path; exact unfolding is checked on the real regex with symbolic short "
               "strings whose characters include CR, SP, TAB and 2-, 3- and 4-octet characters at every fold alignment.")
ASSUMPTIONS = [
    "UTF-8 encodes a character in 1..4 octets and str.encode works per character (Unicode standard)",
    "loop-step: shape of foldline's loop (for char in line; ret_chars/byte_count initialised to []/0) is checked structurally on the AST; a different shape => inconclusive, not a pass",
    "exact unfolding is decided at toy scale (limit 3..7, lines of <= 5 characters over an 10-character alphabet with the boundary code points of every UTF-8 width class) and for real-limit lines made of a repeated character pair; that unfolding is local to a fold point is an argument, not a verified fact",
    "lines contain no LF (asserted by foldline itself)",
]
CONDITIONS = [
    S("loop-step", "c06", "c06_loop_step", timeout=120, what="inductive invariant of the per-character loop: open line <= 75 octets, folds only between characters, one separator per fold", bound="any line length; widths 1..4; arbitrary state satisfying the invariant"),
    S("ascii-path", "c06", "c06_ascii_path", timeout=120, what="ASCII fast path: pieces tile the line, non-empty, physical lines <= 75 octets", bound="any length n >= 1, any piece index"),
] + shards("handover", "c06.py", "h_handover", {"chunk": [0, 1, 2, 3, 4, 5]}, timeout=300,
           what="real limit: ASCII run of every length 0..160, then a 2-/3-/4-octet character and a tail: <= 75 octets, one added space, exact unfolding",
           bound="prefix length 0..160 x 6 boundary code points x 3 tails"
) + shards("fold-unfold", "c06.py", "h_fold_unfold", {"limit": [3, 4, 5, 6, 7], "a": list(range(10))}, timeout=300,
           what="real foldline + real unfold regex: octet limit, valid UTF-8 per line, one added space, exact restore", bound="<= 4 characters, first pinned per shard, over {a, SP, TAB, CR, U+0080, U+07FF, U+0800, U+FFFF, U+10000, U+1F600}"
) + shards("fold-unfold5", "c06.py", "h_fold_unfold", {"limit": [3, 5], "a": list(range(10)), "nmax": [5]}, timeout=1800, tiers=("thorough",),
           what="real foldline + real unfold regex: octet limit, valid UTF-8 per line, one added space, exact restore", bound="<= 5 characters, first pinned per shard, same 10-character alphabet, limits 3 and 5"
) + [X("contentline", "c06.py", "h_contentline", timeout=300, params={"n": n, "nm": nm}, what="Contentline.to_ical/from_ical and Contentlines at the real limit",
       bound="name %d of (DESCRIPTION, X, ATTENDEE;CN=e-acute); value = %d repetitions of a symbolic character pair over 10 boundary code points" % (nm, n))
   for nm, ns in ((0, (0, 1, 17, 18, 19, 24, 25, 31, 32, 36, 37, 38, 63, 80)), (1, (8, 9, 10, 11, 12, 13, 36, 37)), (2, (6, 7, 8, 9, 30))) for n in ns]
