from vcheck.runner import X, shards

FUNCTIONS = ["icalendar.cal.Component.add", "icalendar.cal.Component._encode", "icalendar.cal.create_single_property (setters)",
             "icalendar.cal.create_utc_property (setters)", "icalendar.prop.vDDDTypes.__init__", "icalendar.prop.vDDDLists.__init__",
             "icalendar.prop.vPeriod.__init__", "icalendar.prop.TypesFactory.for_property / types_map", "icalendar.cal.Component.to_ical",
             "icalendar.cal.Component.from_ical (TZID routing, FREEBUSY splitting)", "all value codecs of the pool"]
EXPLANATION = ("CrossHair (z3): (a) the name->type table against an RFC 5545 oracle table for every RFC property name in three letter "
               "cases; (b) a symbolic configuration - component kind (9), property + value kind (62 table rows covering text, int, "
               "geo, date, floating / UTC / zoned date-time, duration, absolute trigger, UTC-forced properties, date / zoned / period "
               "lists, recur, categories, periods, utc-offsets, binary), multiplicity 1..3, nesting - is built through add() / item "
               "assignment, serialised and parsed: same nesting, names, order of repeats, decoded values, VALUE parameter exactly "
               "when the value is not of the property's default type, TZID on every zoned value; (c) the descriptor setters.")
ASSUMPTIONS = [
    "a finite configuration space explored exhaustively by the solver; payload generality comes from C03 / C07 / C11",
    "one property (1..3 values) per component plus two marker properties; nesting depth 1 or 3; arbitrary call sequences beyond add-repeat are property C16/C17's subject",
    "arbitrary parameters are property C08's subject; X- property names with non-text Python values are not RFC property names and are not exercised",
    "float fidelity of GEO beyond the two pool values is not analysed (C03 note)",
]
CONDITIONS = [
    X("types", "c02.py", "h_types", timeout=200, what="every RFC 5545 property name (3 letter cases) -> the RFC's value class; unknown names -> TEXT", bound="48 names x 3 cases"),
    X("setters", "c02.py", "h_setters", timeout=300, what="descriptor setters write VALUE/TZID like add() and survive serialise+parse", bound="4 component/setter groups x 4 value kinds"),
] + [X("build", "c02.py", "h_build", timeout=600, samples=10, params={"comp": comp, "chunk": ch},
       what="build -> to_ical -> from_ical: nesting, names, repeat order, decoded values, VALUE iff non-default type, TZID iff zoned",
       bound="component kind %d, table rows %d..%d, multiplicity 1..3, nested or not, add() or item assignment" % (comp, ch * 10, ch * 10 + 9),
       tiers=("quick", "thorough") if comp in (1, 2, 8) else ("thorough",))
     for comp in range(9) for ch in range(7)]
