from vcheck.runner import X, shards

FUNCTIONS = ["icalendar.parser.dquote", "icalendar.parser.q_split", "icalendar.parser.q_join", "icalendar.parser.param_value",
             "icalendar.parser.Parameters.to_ical", "icalendar.parser.Parameters.from_ical", "icalendar.parser.validate_token",
             "icalendar.parser.validate_param_value", "icalendar.parser.Contentline.from_parts", "icalendar.parser.Contentline.parts",
             "icalendar.parser.unescape_list_or_string", "icalendar.cal.Component.add/_encode (parameters=)",
             "icalendar.cal.Component.to_ical/from_ical"]
EXPLANATION = ("CrossHair (z3): quoting kernels on symbolic ASCII strings; parameter maps over the statement's value alphabet "
               "(, ; : = ' ^ space backslash percent and the placeholder codes) through Parameters alone, a content line, and a "
               "component property, names in any case.")
ASSUMPTIONS = [
    "kernel strings are symbolic ASCII of length <= 3 (thorough 4) without double quotes (CrossHair's regex model is not faithful for non-ASCII set members, measured); the non-ASCII QUOTABLE member U+2019 is in the realized alphabet",
    "route conditions: values over a 17-character alphabet, strings of length <= 3, lists of 2 items (second item <= 2 characters); names from 8 spellings of 4 names",
    "a one-element list and its single element serialise identically (X=a); the oracle treats them as the same value",
    "known finding C08-K1 (parameter values containing a backslash or %2C/%3A/%3B/%5C are altered by Contentline.parts) is excluded by its classifier",
]
CONDITIONS = [
    X("dquote", "c08.py", "h_dquote", timeout=300, thorough_timeout=2000, what="values containing , ; : are emitted inside double quotes, text unchanged", bound="symbolic ASCII strings len <= 3 (thorough 4), no DQUOTE"),
    X("qsplit-qjoin", "c08.py", "h_qsplit", timeout=400, thorough_timeout=2000, what="q_split(q_join(values)) keeps arity and items", bound="1-3 symbolic ASCII values of length <= 2/2/1"),
    X("order", "c08.py", "h_order", timeout=400, what="two parameters: sorted output independent of insertion order; unsorted keeps it; both parse back", bound="8 x 8 name spellings, fixed values"),
]
_W = "Parameters({name: value}) -> text -> Parameters (alone / in a content line / on a component property): same upper-cased name, same value; quoting visible in the text"
for _route in (0, 1, 2):
    for _c0 in range(17):
        CONDITIONS.append(X("roundtrip", "c08.py", "h_params_roundtrip", timeout=300, what=_W,
                            bound="string value over the 17-char alphabet, len <= 3, first char pinned; one of 8 name spellings per shard",
                            params={"route": _route, "c0": _c0, "islist": False, "k": (_c0 + 3 * _route) % 8}))
for _route in (0, 2):
    for _c0 in range(17):
        CONDITIONS.append(X("roundtrip-list", "c08.py", "h_params_roundtrip", timeout=400, what=_W + " - 2-element list value, arity preserved",
                            bound="first item len <= 1, second item len <= 2 over the 17-char alphabet",
                            tiers=("quick", "thorough") if _route == 0 else ("thorough",),
                            params={"route": _route, "c0": _c0, "islist": True, "k": (_c0 + 5) % 8}))
