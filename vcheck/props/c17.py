from vcheck.runner import X, shards
from vcheck.consts import C17_OPS

FUNCTIONS = ["icalendar.caselessdict.CaselessDict.%s" % m for m in (
    "__init__", "__getitem__", "__setitem__", "__delitem__", "__contains__", "get", "setdefault", "pop", "has_key",
    "update", "copy", "__eq__", "__ne__", "sorted_keys", "sorted_items")] + [
    "icalendar.caselessdict.canonsort_keys", "icalendar.caselessdict.canonsort_items",
    "icalendar.parser.Parameters (inherited mapping)", "icalendar.cal.Component/Event (inherited mapping, __eq__)",
    "collections.OrderedDict.__or__/__ior__ as inherited"]
EXPLANATION = ("CrossHair (z3) symbolic execution of the real CaselessDict / Parameters / Event: one mapping operation from "
               "an arbitrary two-name pre-state built underneath the overrides, compared with a reference dict keyed by "
               "upper(); the configuration space is finite and is exhausted path by path (solver-driven).")
ASSUMPTIONS = [
    "induction over the invariant 'all stored keys are upper-case str'; pre-states over names AB/CD (present/absent, values 0..1, both orders)",
    "keys from a 12-element pool: three casings of two names as str and bytes plus an absent name; values 0..3",
    "oracle follows the class's documented signatures: pop(key, default=None) returns the default for a missing key",
    "Event == plain mapping is not exercised here (Component.__eq__ vs non-components is property C20)",
    "popitem/move_to_end/fromkeys/reversed are inherited unchanged from OrderedDict and not exercised",
]
CONDITIONS = shards("step", "c17.py", "h_step", {"cls": [0, 1, 2], "op": list(range(len(C17_OPS)))}, timeout=200,
                    what="one mapping operation vs reference dict keyed by upper(): " + ", ".join(C17_OPS),
                    bound="2 names x present/absent x values 0..1 x order; key pool of 12 case/str/bytes variants") + [
    X("canonsort", "c17.py", "h_canonsort", timeout=200, what="canonsort_keys: permutation, canonical names first in declared order, rest sorted", bound="<=3 distinct symbolic one-letter keys A..F, canonical order (D,B) or none"),
] + shards("update3", "c17.py", "h_update3", {"cls": [0, 1, 2], "mode": [0, 1, 2, 3]}, timeout=200,
    what="update()/constructor with three possibly colliding names as pairs / pairs+keywords / mapping+keywords: sequential-assignment semantics",
    bound="7-key pool (5 spellings of one name incl. bytes, 2 of another), pre-state empty or {AB:0}"
) + shards("sorted-keys", "c17.py", "h_sorted_keys", {"cls": [0, 1, 2]}, timeout=200, what="sorted_keys/sorted_items use the class canonical_order (CaselessDict none, Parameters none, Event's)", bound="3 distinct keys from a 6-name pool x 3 classes")
