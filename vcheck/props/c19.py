from vcheck.runner import X, shards

FUNCTIONS = ["icalendar.prop.vRecur.__init__", "icalendar.prop.vRecur.to_ical", "icalendar.prop.vRecur.from_ical",
             "icalendar.prop.vRecur.parse_type", "icalendar.caselessdict.CaselessDict.sorted_items", "icalendar.caselessdict.canonsort_keys",
             "icalendar.prop.vWeekday", "icalendar.prop.vFrequency", "icalendar.prop.vMonth", "icalendar.prop.vSkip", "icalendar.prop.vInt",
             "icalendar.prop.vDDDTypes (UNTIL)", "icalendar.prop.vText (RSCALE)"]
EXPLANATION = ("CrossHair (z3) over the real vRecur: which rule parts are present (FREQ + up to 3 of the other 16), their letter "
               "case, scalar/list shape, insertion order and constructor form are symbolic; values come from per-part pools "
               "(boundary ordinals, zero, negative, leap month, DATE / floating / UTC UNTIL).")
ASSUMPTIONS = [
    "NOT CLAIMED: 'a standard recurrence expander computes the same occurrences' - dateutil.rrule is a third-party iterator with input-dependent loops; no encoding",
    "FREQ plus at most 3 further parts per rule (all 16 other parts, every pair/triple), value pools of 3-4 values per part, lists of <= 2 values",
    "oracle: the RECUR grammar of RFC 5545/7529 as a regular expression in the harness, and the canonical part order RSCALE, FREQ, UNTIL, COUNT, ...",
    "known finding C20-K1 (a vRecur built from scalars is not == its parsed form) is not part of this statement: values are compared element-wise",
]
CONDITIONS = shards("parts", "c19.py", "h_recur", {"i1": list(range(16)), "ctor": [0, 1]}, timeout=300, thorough_timeout=1500,
                    what="text == canonical join (FREQ first, RSCALE before it), matches the RECUR grammar; from_ical gives every part, typed, in that order; re-encodes identically",
                    bound="FREQ (varying with the selection) + <=2 (thorough 3) further parts (first pinned per shard) x 4 value choices x scalar/list x case x insertion order; mapping / keyword constructor") + [
    X("tolerant", "c19.py", "h_tolerant", timeout=100, what="trailing ';' and lower-case text decode to the same rule", bound="7 frequencies"),
]
