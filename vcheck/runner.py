"""Property runner: decides one property by running its registered solver conditions.

  python -m vcheck.runner C15 [quick|thorough]
  python -m vcheck.runner --replay replay/C15-xxxx.json

Conditions come from vcheck/props/<id>.py (CONDITIONS list).  Two kinds:
  X  - a CrossHair (z3) harness function in vcheck/harness/*.py executed on the real code
  S  - an Engine-S query set (vcheck/pyz3: AST of repo functions -> z3), run by vcheck.s_worker

Exit codes: 0 all conditions confirmed (known findings listed);  1 replayed violation not listed
in known_findings.json;  2 inconclusive / harness error (never reported as success).
"""
import ast
import hashlib
import importlib
import json
import os
import random
import subprocess
import sys
import tempfile
import time
from concurrent.futures import ThreadPoolExecutor

ROOT = os.path.dirname(os.path.dirname(os.path.abspath(__file__)))
PY = os.path.join(ROOT, ".venv", "bin", "python")
REPO_SRC = os.environ.get("VCHECK_REPO_SRC", "/repo/src")
NCPU = int(os.environ.get("VCHECK_JOBS", "16"))


def base_env(tier, symbolic):
    env = dict(os.environ)
    env["PYTHONPATH"] = REPO_SRC + ":" + ROOT
    env["VCHECK_TIER"] = tier
    env["VERIF_TIER"] = tier
    env["PYTHONHASHSEED"] = "0"
    env["PYTHONDONTWRITEBYTECODE"] = "1"
    env.pop("VCHECK_SYMBOLIC", None)
    if symbolic:
        env["VCHECK_SYMBOLIC"] = "1"
    return env


class X:
    """A CrossHair condition."""
    kind = "X"

    def __init__(self, name, harness, fn, timeout=60, tiers=("quick", "thorough"), env=None,
                 twin=True, what="", bound="", path_timeout=None, thorough_timeout=None,
                 samples=40, params=None):
        self.name = name
        self.harness = harness
        self.fn = fn
        self.timeout = timeout
        self.thorough_timeout = thorough_timeout or timeout
        self.tiers = tiers
        self.env = dict(env or {})
        self.params = params or {}
        if self.params:
            self.env["VCHECK_PARAMS"] = json.dumps(self.params, sort_keys=True)
            self.name = name + "[" + ",".join("%s=%s" % kv for kv in sorted(self.params.items())) + "]"
        self.twin = twin
        self.what = what
        self.bound = bound
        self.path_timeout = path_timeout
        self.samples = samples

    def harness_path(self):
        return os.path.join(ROOT, "vcheck", "harness", self.harness)


def shards(name, harness, fn, grid, **kw):
    """One X condition per point of the cartesian product of `grid` (dict name -> list)."""
    import itertools
    keys = sorted(grid)
    out = []
    for combo in itertools.product(*[grid[k] for k in keys]):
        out.append(X(name, harness, fn, params=dict(zip(keys, combo)), **kw))
    return out


class S:
    """An Engine-S condition: module 'vcheck.smt.<mod>' function <fn>(tier, seed) -> dict."""
    kind = "S"

    def __init__(self, name, module, fn, timeout=120, tiers=("quick", "thorough"), what="",
                 bound="", thorough_timeout=None, env=None):
        self.name = name
        self.module = module
        self.fn = fn
        self.timeout = timeout
        self.thorough_timeout = thorough_timeout or timeout
        self.tiers = tiers
        self.what = what
        self.bound = bound
        self.env = env or {}


def _last_json(stdout):
    for line in reversed(stdout.splitlines()):
        if line.startswith("VCHECK_JSON "):
            return json.loads(line[len("VCHECK_JSON "):])
    return None


def run_x_worker(cond, tier, file_path, fn, timeout, scratch):
    env = base_env(tier, True)
    env.update({k: str(v) for k, v in cond.env.items()})
    cmd = [PY, "-m", "vcheck.xh_worker", file_path, fn, str(timeout),
           str(cond.path_timeout) if cond.path_timeout else "-"]
    t0 = time.time()
    try:
        p = subprocess.run(cmd, env=env, cwd=scratch, capture_output=True, text=True,
                           timeout=timeout * 2 + 60)
        res = _last_json(p.stdout)
        if res is None:
            res = {"verdict": "error",
                   "messages": ["no JSON from worker", p.stdout[-1500:], p.stderr[-1500:]]}
    except subprocess.TimeoutExpired:
        res = {"verdict": "unknown", "messages": ["wall-clock timeout of worker"]}
    res["wall_s"] = round(time.time() - t0, 2)
    return res


def make_twin_file(cond, scratch):
    """Reachability twin: same module text, every `post: _` turned into `post: not _`.

    The twin of a harness must be REFUTED (some input makes the harness run to its end and return
    True).  A twin that is confirmed / pre_unsat / unknown means the harness may be vacuous.
    """
    src = open(cond.harness_path()).read()
    lines = []
    for ln in src.splitlines():
        if ln.strip() == "post: _":
            ln = ln.replace("post: _", "post: not _")
        lines.append(ln)
    path = os.path.join(scratch, "twin_" + cond.harness)
    with open(path, "w") as f:
        f.write("\n".join(lines) + "\n")
    return path


def concrete_call(cond, tier, call, scratch):
    """Run `call` (a Python call expression on the harness function) in a plain interpreter."""
    env = base_env(tier, False)
    env.update({k: str(v) for k, v in cond.env.items()})
    cmd = [PY, "-m", "vcheck.replay", "--call", cond.harness_path(), call]
    p = subprocess.run(cmd, env=env, cwd=scratch, capture_output=True, text=True, timeout=600)
    out = _last_json(p.stdout)
    if out is None:
        out = {"outcome": "error", "detail": (p.stdout + p.stderr)[-2000:]}
    return out


def concrete_samples(cond, tier, seed, scratch):
    env = base_env(tier, False)
    env.update({k: str(v) for k, v in cond.env.items()})
    cmd = [PY, "-m", "vcheck.replay", "--samples", cond.harness_path(), cond.fn,
           str(cond.samples), str(seed)]
    try:
        p = subprocess.run(cmd, env=env, cwd=scratch, capture_output=True, text=True, timeout=900)
    except subprocess.TimeoutExpired:
        return {"outcome": "error", "detail": "sample run timed out"}
    out = _last_json(p.stdout)
    if out is None:
        out = {"outcome": "error", "detail": (p.stdout + p.stderr)[-2000:]}
    return out


def run_s_worker(cond, tier, seed, timeout, scratch):
    env = base_env(tier, False)
    env.update({k: str(v) for k, v in cond.env.items()})
    cmd = [PY, "-m", "vcheck.s_worker", cond.module, cond.fn, tier, str(seed), str(timeout)]
    t0 = time.time()
    try:
        p = subprocess.run(cmd, env=env, cwd=scratch, capture_output=True, text=True,
                           timeout=timeout * 1.5 + 60)
        res = _last_json(p.stdout)
        if res is None:
            res = {"verdict": "error",
                   "messages": ["no JSON from s_worker", p.stdout[-1500:], p.stderr[-3000:]]}
    except subprocess.TimeoutExpired:
        res = {"verdict": "unknown", "messages": ["wall-clock timeout of s_worker"]}
    res["wall_s"] = round(time.time() - t0, 2)
    return res


def load_known(pid):
    path = os.path.join(ROOT, "known_findings.json")
    if not os.path.exists(path):
        return []
    data = json.load(open(path))
    return [e for e in data.get("findings", []) if e.get("property") == pid]


def write_replay(pid, cond, tier, payload):
    os.makedirs(os.path.join(ROOT, "replay"), exist_ok=True)
    h = hashlib.sha1(json.dumps(payload, sort_keys=True).encode()).hexdigest()[:10]
    safe = "".join(ch if ch.isalnum() or ch in "-_" else "_" for ch in cond.name)
    path = os.path.join(ROOT, "replay", f"{pid}-{safe}-{h}.json")
    payload = dict(payload, property=pid, condition=cond.name, tier=tier, env=cond.env)
    with open(path, "w") as f:
        json.dump(payload, f, indent=1)
    return path


def decide_condition(pid, cond, tier, seed, scratch, known):
    """Returns a record dict with 'status' in ok|violation|known|inconclusive."""
    rec = {"name": cond.name, "kind": cond.kind, "what": cond.what, "bound": cond.bound}
    timeout = cond.thorough_timeout if tier == "thorough" else cond.timeout
    if cond.kind == "X":
        rec["harness"] = "vcheck/harness/" + cond.harness + ":" + cond.fn
        res = run_x_worker(cond, tier, cond.harness_path(), cond.fn, timeout, scratch)
        verdict = res.get("verdict")
        # A counterexample that does not reproduce concretely = engine infidelity on that input.
        # Exclude it and keep searching for a *reproducing* violation (sound: the only outcome this
        # can add is a replayed VIOLATION; otherwise the condition is reported inconclusive).
        non_repro = []
        while verdict == "refuted" and res.get("call") and len(non_repro) < 6:
            rp = concrete_call(cond, tier, res["call"], scratch)
            if rp.get("outcome") == "reproduced":
                break
            non_repro.append(res["call"])
            cond2 = X(cond.name, cond.harness, cond.fn, env=dict(cond.env, VCHECK_EXCLUDE=json.dumps(non_repro)),
                      path_timeout=cond.path_timeout)
            cond2.name = cond.name
            res = run_x_worker(cond2, tier, cond.harness_path(), cond.fn, timeout, scratch)
            verdict = res.get("verdict")
        rec["result"] = res
        if non_repro:
            rec["non_reproducing_counterexamples"] = non_repro
            if verdict != "refuted":
                rec["status"] = "inconclusive"
                rec["reason"] = ("engine infidelity: counterexample(s) %s did not reproduce on the real code; "
                                 "verdict after excluding them: %s" % (non_repro, verdict))
                return rec
        if verdict == "confirmed":
            # vacuity guard
            if cond.twin:
                tw = run_x_worker(cond, tier, make_twin_file(cond, scratch), cond.fn,
                                  max(30, timeout // 2), scratch)
                if tw.get("verdict") != "refuted":   # transient worker trouble: one retry
                    tw = run_x_worker(cond, tier, make_twin_file(cond, scratch), cond.fn,
                                      max(60, timeout), scratch)
                rec["twin"] = {k: tw.get(k) for k in ("verdict", "call", "wall_s", "messages")}
                if tw.get("verdict") != "refuted":
                    rec["status"] = "inconclusive"
                    rec["reason"] = "reachability twin not refuted: harness may be vacuous"
                    return rec
            # engine fidelity guard: the harness must also hold concretely on sampled inputs
            sm = concrete_samples(cond, tier, seed, scratch)
            if cond.twin and rec.get("twin", {}).get("call"):
                # the twin's witness (an input CrossHair says makes the harness return True) must
                # also return True on the real code in a plain interpreter
                tw_call = rec["twin"]["call"]
                tr = concrete_call(cond, tier, tw_call, scratch)
                rec["twin"]["concrete"] = tr.get("outcome")
                if tr.get("outcome") == "reproduced":
                    sm = {"outcome": "fail", "call": tw_call, "detail": tr.get("detail")}
                elif tr.get("outcome") == "not_reproduced":
                    if sm.get("outcome") == "error" and "could not generate" in str(sm.get("detail")):
                        sm = {"outcome": "ok", "ran": 0, "examples": []}
                    sm["ran"] = sm.get("ran", 0) + 1
                    sm.setdefault("examples", []).append(tw_call)
            rec["concrete"] = sm
            if sm.get("outcome") == "fail":
                # the real code violates the harness on a concrete input CrossHair said was fine
                call = sm.get("call")
                path = write_replay(pid, cond, tier,
                                    {"kind": "X", "harness": cond.harness, "call": call,
                                     "what": "concrete validation sample fails: " + str(sm.get("detail"))})
                rec["status"] = "violation"
                rec["replay"] = path
                rec["call"] = call
                return rec
            if sm.get("outcome") != "ok":
                rec["status"] = "inconclusive"
                rec["reason"] = "concrete validation of the harness failed to run: " + str(sm.get("detail"))[:500]
                return rec
            rec["status"] = "ok"
            return rec
        if verdict == "refuted" and res.get("call"):
            call = res["call"]
            rp = concrete_call(cond, tier, call, scratch)
            rec["replay_outcome"] = rp
            if rp.get("outcome") == "reproduced":
                path = write_replay(pid, cond, tier, {"kind": "X", "harness": cond.harness,
                                                      "call": call, "what": res.get("what")})
                rec["status"] = "violation"
                rec["replay"] = path
                rec["call"] = call
                return rec
            rec["status"] = "inconclusive"
            rec["reason"] = ("counterexample %s does not reproduce on the real code in a plain "
                             "interpreter (engine/stub infidelity): %s" % (call, rp))
            return rec
        rec["status"] = "inconclusive"
        rec["reason"] = "CrossHair verdict: %s %s" % (verdict, json.dumps(res.get("messages"))[:1500])
        return rec
    else:
        res = run_s_worker(cond, tier, seed, timeout, scratch)
        rec["result"] = res
        verdict = res.get("verdict")
        if verdict == "confirmed":
            rec["status"] = "ok"
        elif verdict == "refuted":
            # the S worker replays its own counterexamples on the real code before saying refuted
            path = write_replay(pid, cond, tier, {"kind": "S", "module": cond.module,
                                                  "fn": cond.fn, "cex": res.get("cex"),
                                                  "what": res.get("what")})
            rec["status"] = "violation"
            rec["replay"] = path
            rec["call"] = json.dumps(res.get("cex"))[:400]
        else:
            rec["status"] = "inconclusive"
            rec["reason"] = "Engine S verdict: %s %s" % (verdict, json.dumps(res.get("messages"))[:3000])
        return rec


def check_known_witnesses(pid, known, tier, scratch):
    """For each listed known finding, re-run its concrete witness on the real code.

    Prints KNOWN-FINDING lines only for findings whose witness still reproduces."""
    lines = []
    for e in known:
        if e.get("kind") != "known":
            continue
        w = e.get("witness")
        still = None
        if w:
            env = base_env(tier, False)
            p = subprocess.run([PY, "-m", "vcheck.replay", "--witness", json.dumps(w)], env=env,
                               cwd=scratch, capture_output=True, text=True, timeout=300)
            out = _last_json(p.stdout) or {}
            still = out.get("outcome") == "reproduced"
        if still or still is None:
            lines.append("KNOWN-FINDING: property=%s %s" % (pid, e.get("text")))
        e["_still_reproduces"] = still
    return lines


def run_property(pid, tier):
    t0 = time.time()
    seed = int(os.environ.get("VERIF_SEED", "0") or 0)
    spec = importlib.import_module("vcheck.props." + pid.lower())
    conds = [c for c in spec.CONDITIONS if tier in c.tiers]
    only = os.environ.get("VCHECK_ONLY")     # development aid: run the conditions whose name contains this text
    if only:
        conds = [c for c in conds if any(o in c.name for o in only.split("|"))]
        os.environ.setdefault("VCHECK_EVIDENCE_DIR", tempfile.mkdtemp(prefix="vcheck_partial_evidence_"))
    known = load_known(pid)
    scratch = tempfile.mkdtemp(prefix="vcheck_%s_" % pid)
    try:
        for line in check_known_witnesses(pid, known, tier, scratch):
            print(line, flush=True)
        with ThreadPoolExecutor(max_workers=NCPU) as ex:
            # longest budgets first (shorter makespan); results are reported in registration order
            def budget(c):
                return (getattr(c, "thorough_timeout", None) or c.timeout) if tier == "thorough" else c.timeout
            order = sorted(range(len(conds)), key=lambda i: -budget(conds[i]))
            futs = {i: ex.submit(decide_condition, pid, conds[i], tier, seed, scratch, known) for i in order}
            recs = [futs[i].result() for i in range(len(conds))]
    finally:
        import shutil
        shutil.rmtree(scratch, ignore_errors=True)
    violations = [r for r in recs if r["status"] == "violation"]
    inconclusive = [r for r in recs if r["status"] == "inconclusive"]
    for r in recs:
        extra = ""
        if r["status"] == "violation":
            extra = " call=" + str(r.get("call"))[:300]
        if r["status"] == "inconclusive":
            extra = " reason=" + str(r.get("reason"))[:600]
        res = r.get("result", {})
        print("[%s] %-13s %-34s %6.1fs %s%s" % (pid, r["status"].upper(), r["name"],
                                               res.get("wall_s", 0.0),
                                               json.dumps(res.get("leaf_stats", res.get("stats", "")))[:120],
                                               extra), flush=True)
    write_evidence(pid, tier, seed, spec, recs, known, time.time() - t0)
    for r in violations:
        print("VIOLATION property=%s replay=%s" % (pid, r["replay"]), flush=True)
    if violations:
        return 1
    if inconclusive:
        print("INCONCLUSIVE property=%s conditions=%s" % (pid, ",".join(r["name"] for r in inconclusive)))
        return 2
    print("OK property=%s tier=%s conditions=%d wall=%.1fs" % (pid, tier, len(recs), time.time() - t0))
    return 0


def write_evidence(pid, tier, seed, spec, recs, known, wall):
    paths = 0
    confirmed_leaves = 0
    decisions = 0
    queries = 0
    discharged = 0
    solver_s = 0.0
    validated = 0
    samples = []
    functions = set(getattr(spec, "FUNCTIONS", []))
    for r in recs:
        res = r.get("result", {})
        if r["kind"] == "X":
            ls = res.get("leaf_stats") or {}
            paths += sum(ls.values())
            confirmed_leaves += ls.get("CONFIRMED", 0)
            decisions += res.get("smt_decisions", 0)
            solver_s += res.get("cpu_s", 0.0)
            c = r.get("concrete") or {}
            validated += c.get("ran", 0)
            queries += 1
            discharged += 1 if r["status"] == "ok" else 0
            smp = {"condition": r["name"], "verdict": res.get("verdict"),
                   "leaf_stats": ls, "smt_decisions": res.get("smt_decisions"),
                   "cpu_s": res.get("cpu_s")}
            if r.get("twin"):
                smp["reachability_twin_counterexample"] = r["twin"].get("call")
            if c.get("examples"):
                smp["concrete_inputs_run"] = c["examples"][:3]
            samples.append(smp)
        else:
            st = res.get("stats") or {}
            queries += st.get("queries", 0)
            discharged += st.get("unsat", 0)
            paths += st.get("queries", 0)
            confirmed_leaves += st.get("unsat", 0)
            decisions += st.get("terms", 0)
            solver_s += st.get("solver_s", 0.0)
            validated += st.get("validation_vectors", 0)
            functions.update(st.get("functions", []))
            samples.append({"condition": r["name"], "verdict": res.get("verdict"), "stats": st,
                            "samples": (res.get("samples") or [])[:4]})
    ok = all(r["status"] == "ok" for r in recs)
    ev = {
        "property_id": pid,
        "tier": tier,
        "seed": seed,
        "level": "model_checking",
        "coverage": {
            "states": max(paths, 1) if recs else 0,
            "transitions": max(decisions, 1) if recs else 0,
            "traces_validated_against_impl": validated,
            "samples": samples,
            "evaluations": max(paths, 1),
            "distinct_nontrivial": confirmed_leaves,
            "rule": ("states = symbolic execution paths (CrossHair path-tree leaves) plus Engine-S "
                     "solver queries; a path is distinct by its branch-decision prefix; non-trivial = "
                     "leaf whose postcondition was checked and CONFIRMED by z3 for the whole path "
                     "condition, or an Engine-S query answered unsat; transitions = SMT branch "
                     "decisions / asserted terms; traces_validated_against_impl = concrete inputs on "
                     "which the same harness was re-run on the real code in a plain interpreter"),
            "exhaustive": ok,
            "explanation": getattr(spec, "EXPLANATION", ""),
            "functions_encoded": sorted(functions),
            "bounds": [{"condition": r["name"], "what": r["what"], "bound": r["bound"]} for r in recs],
            "queries": queries,
            "discharged": discharged,
            "solver_cpu_s": round(solver_s, 2),
            "conditions": [{"name": r["name"], "status": r["status"], "reason": r.get("reason"),
                            "wall_s": r.get("result", {}).get("wall_s")} for r in recs],
            "known_findings": [{"id": e.get("id"), "kind": e.get("kind"), "text": e.get("text"),
                                "still_reproduces": e.get("_still_reproduces")} for e in known],
        },
        "assumptions": list(getattr(spec, "ASSUMPTIONS", [])),
        "wall_s": round(wall, 2),
        "violations": sum(1 for r in recs if r["status"] == "violation"),
    }
    evdir = os.environ.get("VCHECK_EVIDENCE_DIR") or os.path.join(ROOT, "evidence")   # scratch runs against seeded trees redirect it
    os.makedirs(evdir, exist_ok=True)
    with open(os.path.join(evdir, pid + ".json"), "w") as f:
        json.dump(ev, f, indent=1, default=str)


def replay_file(path):
    data = json.load(open(path))
    tier = data.get("tier", "quick")
    scratch = tempfile.mkdtemp(prefix="vcheck_replay_")
    if data["kind"] == "X":
        cond = X(data["condition"], data["harness"], "-", env=data.get("env") or {})
        out = concrete_call(cond, tier, data["call"], scratch)
    else:
        env = base_env(tier, False)
        p = subprocess.run([PY, "-m", "vcheck.s_worker", "--replay", data["module"], data["fn"],
                            json.dumps(data["cex"])], env=env, cwd=scratch, capture_output=True,
                           text=True)
        out = _last_json(p.stdout) or {"outcome": "error", "detail": p.stdout + p.stderr}
    print(json.dumps(out, indent=1))
    if out.get("outcome") == "reproduced":
        print("VIOLATION property=%s replay=%s" % (data["property"], path))
        return 1
    return 0 if out.get("outcome") == "not_reproduced" else 2


def main(argv):
    if argv and argv[0] == "--replay":
        return replay_file(argv[1])
    pid = argv[0].upper()
    tier = argv[1] if len(argv) > 1 else os.environ.get("VERIF_TIER", "quick")
    return run_property(pid, tier)


if __name__ == "__main__":
    sys.exit(main(sys.argv[1:]))
